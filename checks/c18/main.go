// C18: pbkdf2.Key and hkdf.Extract/Expand/New equal RFC 8018 / RFC 5869; an HKDF
// reader is prefix-consistent under every sequence of Read sizes, offers exactly
// 255*HashLen bytes, and a Read exceeding the limit fails without consuming output.
//
// Part 1 (grid)     pbkdf2.Key over hash x iterations x every key length x password/salt shapes.
// Part 2 (grid)     hkdf.Extract / Expand / New over hash x secret/salt/info shapes (incl. nil salt).
// Part 3 (sequence) every sequence of Read(n) calls of depth D over a boundary alphabet of n,
//
//	no state merging, each history replayed on a fresh real reader in lock-step
//	with the position model, followed by a drain epilogue.
package main

import (
	"bytes"
	"crypto/sha1"
	"crypto/sha256"
	"crypto/sha512"
	"fmt"
	"hash"
	"io"
	"time"

	"golang.org/x/crypto/hkdf"
	"golang.org/x/crypto/pbkdf2"
	"verif/ref/kdfref"
	"verif/vf"
)

func main() { vf.Main("C18", vf.ModelChecking, run) }

type hdef struct {
	name  string
	new   func() hash.Hash
	size  int
	block int
}

var hashes = []hdef{
	{"sha1", sha1.New, 20, 64},
	{"sha256", sha256.New, 32, 64},
	{"sha512", sha512.New, 64, 128},
	{"sha224", sha256.New224, 28, 64},
	{"sha384", sha512.New384, 48, 128},
}

func run(c *vf.Ctx) {
	c.RaceCompanion("the hkdf/pbkdf2 functions", "golang.org/x/crypto/hkdf.", "golang.org/x/crypto/pbkdf2.")
	c.Rule("PBKDF2: hash{sha1,sha224,sha256,sha384,sha512} x iter{1,2,3,4,5,1000} x every keyLen 1..3*hLen+2 (iter<=5; boundary set at 1000) x password len{0,1,B-1,B,B+1,200} x salt len{0,1,8,B,200} x value classes; " +
		"HKDF: same hashes x secret len{0,1,hLen,B,B+1,200} x salt{nil,empty,1,hLen,B,B+1} x info len{0,1,10,200}, Extract/Expand/New compared over the whole 255*hLen stream; " +
		"reader: ALL sequences of Read(n), n in {0,1,hLen-1,hLen,hLen+1,2hLen+1,254hLen-1,254hLen,254hLen+1,255hLen-1,255hLen,255hLen+1}, depth 4 (thorough 5), no state merging, for sha1/sha256/sha512 x {Expand,New}, each followed by a drain epilogue; " +
		"hardening: (A) pbkdf2.Key / hkdf.Extract / Expand / New receive password, salt, secret, PRK and info as private copies in sentinel-framed buffers (spare capacity behind the slice or cap == len, alternating) that must be intact after the call; password, salt, secret and PRK are wiped as soon as the call returns (info is kept by reference by the reader - unchanged behaviour - and only checked for writes); " +
		"(C/E) for sha1/sha256/sha512: HKDF secret, salt, info, PRK and PBKDF2 password, salt of length 2^k+{-1,0,1,B-1,B,B+1}, k=7..22 (PRK/salt above 2^16: 2 deltas), PBKDF2 key lengths {255,256,257,65535,65536,65537}*hLen+{-1,0,1} (4-octet block index), iterations 255..257; " +
		"(A/D) two readers (+ a third created afterwards) built from the same info (and salt) slice x {Expand,New} x {spare capacity, cap == len}: all 6^4 schedules of {A,B}.Read{1,hLen,hLen+1}, each reader must continue its own stream; " +
		"constructor parameters x end of stream: (i) the limit-region read alphabet with the drain epilogue, ALL sequences of depth 2 (thorough 4), for sha1/sha256/sha512 x {Expand with PRK length{1,hLen-1,hLen+1,2hLen,B,B+1}, New with (secret,salt) length{(0,nil),(1,0),(200,B+1),(B+1,1)}, New and Expand(PRK hLen+1) with info length{0,200}}; " +
		"(ii) hkdf.Expand with raw PRK length{1,hLen-1,hLen+1,2hLen,B,B+1,200} x 5 hashes x info length{0,1,10,200}: whole stream in reads {1,hLen+1,rest-7}, a Read of 8 with 7 left must fail with n=0, remainder, one more octet must fail, zero-length read succeeds; " +
		"(iii) the long PRK / secret / salt (all lengths) and long info (up to 4 KiB) points read the whole stream and probe its end instead of the first blocks only; " +
		"non-trivial = distinct (hash,keyLen>hLen) PBKDF2 shapes, distinct HKDF shapes, and distinct reader histories that contain a failing Read or cross a block boundary with a partly consumed block; state = (hash, bytes consumed) of the position model")
	c.Assume("crypto/hmac, crypto/sha1, crypto/sha256, crypto/sha512 are correct (the reference models are built on them; /repo delegates to crypto/pbkdf2 and crypto/hkdf, which are not used by the models)")
	c.Assume("values outside the value alphabet (fixed classes + seeded classes) are not enumerated")

	t0 := time.Now()
	lap := func(name string) {
		c.Set("seconds_"+name, float64(int(time.Since(t0).Seconds()*10))/10)
		t0 = time.Now()
	}
	pbkdf2Grid(c)
	lap("pbkdf2_grid")
	hkdfGrid(c)
	lap("hkdf_grid")
	longInputs(c)
	lap("long_inputs")
	interleavedReaders(c)
	lap("interleaved_readers")
	readerSequences(c)
	lap("reader_sequences")
}

// ---------------------------------------------------------------- hardening helpers

// guard places a private copy of b in a frame: 8 sentinel bytes in front, 24 behind. With spare
// the returned slice's capacity extends over the trailing sentinels (an append inside the
// package would write into caller memory), otherwise cap == len. nil stays nil.
func guard(b []byte, spare bool) (frame, s []byte) {
	if b == nil {
		return nil, nil
	}
	frame = bytes.Repeat([]byte{0xA5}, 8+len(b)+24)
	copy(frame[8:], b)
	if spare {
		return frame, frame[8 : 8+len(b)]
	}
	return frame, frame[8 : 8+len(b) : 8+len(b)]
}

func intact(frame, orig []byte) bool {
	if orig == nil {
		return frame == nil
	}
	for i, v := range frame {
		if i >= 8 && i < 8+len(orig) {
			if v != orig[i-8] {
				return false
			}
		} else if v != 0xA5 {
			return false
		}
	}
	return true
}

func wipe(frame []byte) {
	for i := range frame {
		frame[i] ^= 0xFF
	}
}

// ---------------------------------------------------------------- PBKDF2

func pbkdf2Grid(c *vf.Ctx) {
	type pt struct {
		h          hdef
		iter, klen int
		pl, sl     int
	}
	var grid []pt
	for _, h := range hashes {
		pls := []int{0, 1, h.block - 1, h.block, h.block + 1, 200}
		sls := []int{0, 1, 8, h.block, 200}
		for _, it := range []int{1, 2, 3, 4, 5, 1000} {
			var kls []int
			if it <= 5 {
				for k := 1; k <= 3*h.size+2; k++ {
					kls = append(kls, k)
				}
			} else {
				kls = []int{1, h.size - 1, h.size, h.size + 1, 2 * h.size, 3*h.size + 1}
			}
			for _, kl := range kls {
				for pi, pl := range pls {
					for si, sl := range sls {
						// full cross product of password/salt shapes at the key-length
						// boundaries; elsewhere the diagonal (every shape still occurs)
						boundary := kl == 1 || kl%h.size <= 1 || kl%h.size == h.size-1
						if !boundary && (pi+si+kl)%len(sls) != 0 {
							continue
						}
						if it == 1000 && !c.Thorough && (pi+si)%3 != 0 {
							continue
						}
						grid = append(grid, pt{h, it, kl, pl, sl})
					}
				}
			}
		}
	}
	c.Set("pbkdf2_grid_points", len(grid))
	c.ParallelFor(len(grid), func(i int) {
		g := grid[i]
		pws := c.ValueClasses("pbkdf2-pw", g.pl, c.V())
		salts := c.ValueClasses("pbkdf2-salt", g.sl, c.V())
		nv := len(pws)
		if g.iter == 1000 {
			pws, salts = pws[3:], salts[3:] // ascending + seeded
			nv = len(pws)
		}
		for v := 0; v < nv; v++ {
			pw, salt := pws[v], salts[(v+1)%len(salts)]
			pwc, sc := pw, salt
			// hardening A: private, sentinel-framed copies (spare capacity alternating), intact after the call, then wiped
			fpw, gpw := guard(pw, (i+v)%2 == 0)
			fsalt, gsalt := guard(salt, (i+v)%2 == 1 || g.klen%3 == 0)
			var got []byte
			p, val, _ := vf.Protect(func() { got = pbkdf2.Key(gpw, gsalt, g.iter, g.klen, g.h.new) })
			c.Eval(1)
			d := map[string]any{"hash": g.h.name, "iter": g.iter, "keyLen": g.klen, "pwLen": g.pl, "saltLen": g.sl, "class": v}
			if !p && (!intact(fpw, pw) || !intact(fsalt, salt)) {
				c.Violation("pbkdf2.Key writes to the caller's password/salt buffer or its spare capacity", d)
			}
			wipe(fpw)
			wipe(fsalt)
			if p {
				d["panic"] = fmt.Sprint(val)
				c.Violation("pbkdf2.Key panics on valid arguments", d)
				continue
			}
			want := kdfref.PBKDF2(g.h.new, pwc, sc, g.iter, g.klen)
			if !bytes.Equal(got, want) {
				d["got"], d["want"] = vf.Hex8(got), vf.Hex8(want)
				cls := "pbkdf2.Key != RFC 8018 model"
				if len(got) != g.klen {
					cls = "pbkdf2.Key returns wrong length"
				}
				c.Violation(cls, d)
			}
			c.Outcome("pbkdf2-ok")
		}
		if g.klen > g.h.size {
			c.Nontrivial(fmt.Sprintf("pbkdf2/%s/%d/%d/%d/%d", g.h.name, g.iter, g.klen, g.pl, g.sl))
		}
		if g.klen == 3*g.h.size+1 && g.iter == 3 && g.pl == 200 && c.WantSample() {
			c.Sample(map[string]any{"part": "pbkdf2", "hash": g.h.name, "iter": g.iter, "keyLen": g.klen, "pwLen": g.pl, "saltLen": g.sl, "value_classes": nv})
		}
	})
}

// ---------------------------------------------------------------- HKDF grid

func hkdfGrid(c *vf.Ctx) {
	type pt struct {
		h          hdef
		sl, saltl  int // saltl -1 = nil salt
		il         int
		secretZero bool
	}
	var grid []pt
	for _, h := range hashes {
		for _, sl := range []int{0, 1, h.size, h.block, h.block + 1, 200} {
			for _, saltl := range []int{-1, 0, 1, h.size, h.block, h.block + 1} {
				for _, il := range []int{0, 1, 10, 200} {
					grid = append(grid, pt{h: h, sl: sl, saltl: saltl, il: il})
				}
			}
		}
	}
	c.Set("hkdf_grid_points", len(grid))
	c.ParallelFor(len(grid), func(i int) {
		g := grid[i]
		limit := 255 * g.h.size
		secrets := c.ValueClasses("hkdf-secret", g.sl, c.V())
		nsalt := g.saltl
		if nsalt < 0 {
			nsalt = 0
		}
		salts := c.ValueClasses("hkdf-salt", nsalt, c.V())
		infos := c.ValueClasses("hkdf-info", g.il, c.V())
		for v := range secrets {
			secret, salt, info := secrets[v], salts[(v+1)%len(salts)], infos[(v+2)%len(infos)]
			if g.saltl < 0 {
				salt = nil
			}
			d := map[string]any{"hash": g.h.name, "secretLen": g.sl, "saltLen": g.saltl, "infoLen": g.il, "class": v}
			secC, saltC, infoC := append([]byte(nil), secret...), append([]byte(nil), salt...), append([]byte(nil), info...)
			wantPRK := kdfref.HKDFExtract(g.h.new, secC, saltC)
			var prk []byte
			fsec, gsec := guard(secret, v%2 == 0)
			fsalt, gsalt := guard(salt, v%2 == 1)
			if p, val, _ := vf.Protect(func() { prk = hkdf.Extract(g.h.new, gsec, gsalt) }); p {
				d["panic"] = fmt.Sprint(val)
				c.Violation("hkdf.Extract panics", d)
				continue
			}
			c.Eval(1)
			if !intact(fsec, secret) || !intact(fsalt, salt) {
				c.Violation("hkdf.Extract writes to the caller's secret/salt buffer or its spare capacity", d)
			}
			wipe(fsec) // the PRK returned must not depend on the caller's buffers any more
			wipe(fsalt)
			if !bytes.Equal(prk, wantPRK) {
				d["got"], d["want"] = vf.Hex8(prk), vf.Hex8(wantPRK)
				c.Violation("hkdf.Extract != RFC 5869 model", d)
				continue
			}
			want := kdfref.HKDFStream(g.h.new, wantPRK, infoC)
			// Expand: whole stream in one ReadFull, then one more byte must fail
			for variant := 0; variant < 2; variant++ {
				var r io.Reader
				name := "hkdf.Expand"
				// hardening A: secret, salt and PRK are private sentinel-framed copies that the
				// caller wipes as soon as the constructor returns; info (which the reader
				// keeps by reference - unchanged behaviour, not wiped) must never be written to,
				// neither inside its length nor in its spare capacity.
				sp := (v+variant)%2 == 0
				fprk, gprk := guard(prk, sp)
				fsec, gsec := guard(secret, sp)
				fsalt, gsalt := guard(salt, !sp)
				finfo, ginfo := guard(info, v%3 != 2)
				if p, val, _ := vf.Protect(func() {
					if variant == 0 {
						r = hkdf.Expand(g.h.new, gprk, ginfo)
					} else {
						name = "hkdf.New"
						r = hkdf.New(g.h.new, gsec, gsalt, ginfo)
					}
				}); p {
					d["panic"] = fmt.Sprint(val)
					c.Violation(name+" panics", d)
					continue
				}
				if !intact(fprk, prk) || !intact(fsec, secret) || !intact(fsalt, salt) {
					c.Violation(name+" writes to the caller's key/secret/salt buffer or its spare capacity", d)
				}
				wipe(fprk)
				wipe(fsec)
				wipe(fsalt)
				defer func(name string) {
					if !intact(finfo, info) {
						c.Violation(name+" reader writes to the caller's info buffer or its spare capacity", d)
					}
				}(name)
				got := make([]byte, limit)
				var n int
				var err error
				if p, val, _ := vf.Protect(func() { n, err = io.ReadFull(r, got) }); p {
					d["panic"] = fmt.Sprint(val)
					c.Violation(name+" reader panics", d)
					continue
				}
				c.Eval(1)
				if err != nil || n != limit {
					d["n"], d["err"] = n, fmt.Sprint(err)
					c.Violation(name+": fewer than 255*HashLen bytes available", d)
					continue
				}
				if !bytes.Equal(got, want) {
					k := 0
					for k < limit && got[k] == want[k] {
						k++
					}
					d["first_diff_at"] = k
					c.Violation(name+" stream != RFC 5869 model", d)
					continue
				}
				var one [1]byte
				n, err = r.Read(one[:])
				if err == nil || n != 0 {
					d["n"] = n
					c.Violation(name+": more than 255*HashLen bytes available", d)
				}
			}
			c.Outcome("hkdf-ok")
		}
		// Expand with a key that is not an Extract output: PRK length classes (rotating with the grid
		// point, all of them for every hash x info length) x the whole stream x the end of the stream
		pls := []int{1, g.h.size - 1, g.h.size + 1, 2 * g.h.size, g.h.block, g.h.block + 1, 200}
		switch {
		case g.saltl == -1 && g.sl == 0: // every PRK length class for every hash x info length
			for _, pl := range pls {
				expandRawPRK(c, g.h, pl, c.Bytes("hkdf-rawprk", pl, pl), c.Bytes("hkdf-info", 0, g.il))
			}
		case g.saltl == 0: // and one more value per remaining shape, rotating
			pl := pls[(i/4)%len(pls)]
			expandRawPRK(c, g.h, pl, c.Bytes("hkdf-rawprk", pl*7+g.sl, pl), c.Bytes("hkdf-info", g.sl, g.il))
		}
		c.Nontrivial(fmt.Sprintf("hkdf/%s/%d/%d/%d", g.h.name, g.sl, g.saltl, g.il))
		if g.sl == 200 && g.saltl == -1 && g.il == 10 && c.WantSample() {
			c.Sample(map[string]any{"part": "hkdf", "hash": g.h.name, "secretLen": g.sl, "salt": "nil", "infoLen": g.il, "stream_bytes_compared": limit})
		}
	})
}

// expandRawPRK: hkdf.Expand with an arbitrary key: the whole 255*HashLen stream in reads of
// {1, HashLen+1, rest}, then a read of one more octet than remains (at the end: 1) must fail with
// n == 0, and a zero-length read must succeed.
func expandRawPRK(c *vf.Ctx, h hdef, pl int, prk, info []byte) {
	limit := 255 * h.size
	d := map[string]any{"hash": h.name, "prkLen": pl, "infoLen": len(info)}
	want := kdfref.HKDFStream(h.new, prk, info)
	fprk, gprk := guard(prk, pl%2 == 0)
	var bad string
	p, val, _ := vf.Protect(func() {
		r := hkdf.Expand(h.new, gprk, info)
		wipe(fprk)
		got := make([]byte, limit)
		pos := 0
		for _, n := range []int{1, h.size + 1, limit - h.size - 2 - 7} {
			if k, err := r.Read(got[pos : pos+n]); err != nil || k != n {
				bad, d["read"], d["offset"], d["n"], d["err"] = "fewer than 255*HashLen bytes available", n, pos, k, fmt.Sprint(err)
				return
			}
			pos += n
		}
		// 7 octets remain: a read of 8 must fail without consuming them
		var over [8]byte
		if k, err := r.Read(over[:]); err == nil || k != 0 {
			bad, d["n"] = "a Read crossing the 255*HashLen limit succeeds", k
			return
		}
		if k, err := r.Read(got[pos:]); err != nil || k != 7 {
			bad, d["n"], d["err"] = "the remainder is not available after a refused Read", k, fmt.Sprint(err)
			return
		}
		if !bytes.Equal(got, want) {
			bad = "stream != RFC 5869 model"
			return
		}
		if k, err := r.Read(over[:1]); err == nil || k != 0 {
			bad = "more than 255*HashLen bytes available"
			return
		}
		if k, err := r.Read(nil); err != nil || k != 0 {
			bad = "zero-length Read at the end fails"
		}
	})
	c.Eval(1)
	switch {
	case p:
		d["panic"] = fmt.Sprint(val)
		c.Violation("hkdf.Expand with a PRK that is not HashLen long panics", d)
	case bad != "":
		c.Violation("hkdf.Expand with a PRK that is not HashLen long: "+bad, d)
	}
	c.Nontrivial(fmt.Sprintf("hkdf-rawprk/%s/%d/%d", h.name, pl, len(info)))
}

// ---------------------------------------------------------------- reader sequences

func readerSequences(c *vf.Ctx) {
	depth := 4
	if c.Thorough {
		depth = 5
	}
	c.Set("reader_depth", depth)
	for hi, h := range hashes[:3] {
		L := h.size
		ops := []int{0, 1, L - 1, L, L + 1, 2*L + 1, 254*L - 1, 254 * L, 254*L + 1, 255*L - 1, 255 * L, 255*L + 1}
		limit := 255 * L
		for variant := 0; variant < 2; variant++ {
			secret := c.Bytes("rd-secret", hi, 32)
			salt := c.Bytes("rd-salt", hi, 16)
			info := c.Bytes("rd-info", hi, 11+variant)
			prk := kdfref.HKDFExtract(h.new, secret, salt)
			mk := func() io.Reader { return hkdf.Expand(h.new, prk, info) }
			vname := "Expand"
			if variant == 1 {
				vname = "New"
				mk = func() io.Reader { return hkdf.New(h.new, secret, salt, info) }
			}
			stream := kdfref.HKDFStream(h.new, prk, info)
			total := 1
			for i := 0; i < depth; i++ {
				total *= len(ops)
			}
			c.ParallelFor(total, func(idx int) {
				hist := make([]int, depth)
				for i, x := depth-1, idx; i >= 0; i-- {
					hist[i] = ops[x%len(ops)]
					x /= len(ops)
				}
				runHistory(c, h, vname, mk, stream, limit, hist, idx)
			})
			if c.Expired() {
				return
			}
		}
		// Constructor-parameter classes crossed with the limit region: the same read alphabet and
		// drain epilogue (depth 2; thorough 4) for Expand with a PRK that is NOT HashLen octets long
		// (Expand accepts any strong key), for New with other secret/salt length classes (nil salt,
		// salt/secret longer than the hash block), and for empty and long info on both.
		cdepth := 2
		if c.Thorough {
			cdepth = 4
		}
		ctotal := 1
		for i := 0; i < cdepth; i++ {
			ctotal *= len(ops)
		}
		type cfg struct {
			name   string
			mk     func() io.Reader
			stream []byte
		}
		var cfgs []cfg
		info0 := c.Bytes("rd-info", hi, 11)
		for _, pl := range []int{1, L - 1, L + 1, 2 * L, h.block, h.block + 1} {
			prk := c.Bytes("rd-prk", hi*1000+pl, pl)
			cfgs = append(cfgs, cfg{fmt.Sprintf("Expand prkLen=%d", pl), func() io.Reader { return hkdf.Expand(h.new, append([]byte(nil), prk...), info0) },
				kdfref.HKDFStream(h.new, prk, info0)})
		}
		for _, ss := range [][2]int{{0, -1}, {1, 0}, {200, h.block + 1}, {h.block + 1, 1}} {
			secret := c.Bytes("rd-secret2", hi*1000+ss[0], ss[0])
			var salt []byte
			if ss[1] >= 0 {
				salt = c.Bytes("rd-salt2", hi*1000+ss[1], ss[1])
			}
			cfgs = append(cfgs, cfg{fmt.Sprintf("New secretLen=%d saltLen=%d", ss[0], ss[1]),
				func() io.Reader { return hkdf.New(h.new, append([]byte(nil), secret...), append([]byte(nil), salt...), info0) },
				kdfref.HKDFStream(h.new, kdfref.HKDFExtract(h.new, secret, salt), info0)})
		}
		for _, il := range []int{0, 200} {
			info := c.Bytes("rd-info2", hi*1000+il, il)
			secret, salt := c.Bytes("rd-secret", hi, 32), c.Bytes("rd-salt", hi, 16)
			prk := kdfref.HKDFExtract(h.new, secret, salt)
			odd := c.Bytes("rd-prk", hi*1000+L+1, L+1)
			cfgs = append(cfgs,
				cfg{fmt.Sprintf("New infoLen=%d", il), func() io.Reader { return hkdf.New(h.new, secret, salt, info) }, kdfref.HKDFStream(h.new, prk, info)},
				cfg{fmt.Sprintf("Expand prkLen=%d infoLen=%d", L+1, il), func() io.Reader { return hkdf.Expand(h.new, odd, info) }, kdfref.HKDFStream(h.new, odd, info)})
		}
		for _, cf := range cfgs {
			c.ParallelFor(ctotal, func(idx int) {
				hist := make([]int, cdepth)
				for i, x := cdepth-1, idx; i >= 0; i-- {
					hist[i] = ops[x%len(ops)]
					x /= len(ops)
				}
				runHistory(c, h, cf.name, cf.mk, cf.stream, limit, hist, idx)
			})
			if c.Expired() {
				return
			}
		}
	}
}

// runHistory replays one history on a fresh reader in lock-step with the position
// model, then drains: the exact remainder must be readable and equal to the model's
// tail, one more byte must fail, and a zero-length read must still succeed.
func runHistory(c *vf.Ctx, h hdef, vname string, mk func() io.Reader, stream []byte, limit int, hist []int, idx int) {
	label := h.name + "/" + vname
	var r io.Reader
	if p, val, _ := vf.Protect(func() { r = mk() }); p {
		c.Violation("hkdf."+vname+" panics", fmt.Sprint(val))
		return
	}
	pos := 0
	sawFail, sawPartialCross := false, false
	step := func(n int, phase string) bool {
		buf := bytes.Repeat([]byte{0xA5}, n)
		var got int
		var err error
		p, val, _ := vf.Protect(func() { got, err = r.Read(buf) })
		c.Transition(1)
		d := map[string]any{"reader": label, "history": hist, "phase": phase, "read": n, "pos_before": pos}
		if p {
			d["panic"] = fmt.Sprint(val)
			c.Violation("hkdf reader panics in Read", d)
			return false
		}
		if pos+n <= limit {
			if err != nil || got != n {
				d["n"], d["err"] = got, fmt.Sprint(err)
				if n == 0 {
					c.Violation("hkdf reader: zero-length Read fails", d)
				} else {
					c.Violation("hkdf reader: Read within the 255*HashLen limit fails or is short", d)
				}
				return false
			}
			if !bytes.Equal(buf, stream[pos:pos+n]) {
				k := 0
				for buf[k] == stream[pos+k] {
					k++
				}
				d["first_diff_at_stream_offset"] = pos + k
				c.Violation("hkdf reader: Read output is not the next bytes of the RFC 5869 stream", d)
				return false
			}
			if n > 0 && pos%h.size != 0 && (pos%h.size)+n > h.size {
				sawPartialCross = true
			}
			pos += n
			// the caller owns buf: it may wipe or reuse it before the next Read, and the
			// reader's chaining state must not live in it
			for i := range buf {
				buf[i] = 0x3C
			}
		} else {
			sawFail = true
			if err == nil {
				d["n"] = got
				c.Violation("hkdf reader: Read beyond the 255*HashLen limit succeeds", d)
				return false
			}
			if got != 0 {
				d["n"] = got
				c.Violation("hkdf reader: failing Read reports consumed bytes", d)
				return false
			}
			// "without consuming output": checked by the following steps / the drain,
			// which continue from the unchanged position.
		}
		c.State(fmt.Sprintf("%s|%d", label, pos))
		return true
	}
	for _, n := range hist {
		if !step(n, "history") {
			return
		}
	}
	// drain epilogue
	if !step(limit-pos+1, "drain: one more than remaining must fail") {
		return
	}
	if !step(limit-pos, "drain: exact remainder") {
		return
	}
	if !step(1, "drain: one byte past the end must fail") {
		return
	}
	if !step(0, "drain: zero-length read at the end") {
		return
	}
	c.Eval(1)
	c.TraceValidated(1)
	if sawFail || sawPartialCross {
		c.Nontrivial(fmt.Sprintf("rd/%s/%d", label, idx))
	}
	switch {
	case sawFail && sawPartialCross:
		c.Outcome("reader: failing read and partial-block crossing")
	case sawFail:
		c.Outcome("reader: failing read")
	case sawPartialCross:
		c.Outcome("reader: partial-block crossing")
	default:
		c.Outcome("reader: aligned reads only")
	}
	if sawFail && sawPartialCross && hist[0] == h.size+1 && c.WantSample() {
		c.Sample(map[string]any{"part": "reader", "reader": label, "history_read_sizes": hist, "final_pos_before_drain": pos})
	}
}

// ---------------------------------------------------------------- long inputs (hardening C/E)

// longInputs: secret, salt, info, PRK, password and salt lengths 2^k + {-1,0,1,B-1,B,B+1} (B = hash
// block) for k up to 22, and PBKDF2 key lengths whose 4-octet block index passes 255/256 and
// 65535/65536. Each against the model (for long info only the first blocks of the stream).
func longInputs(c *vf.Ctx) {
	kmax := 22
	src := vf.DetBytes(fmt.Sprintf("%d|kdf-long", c.Seed), 1<<uint(kmax)+300)
	shortSrc := c.Bytes("kdf-long-short", 0, 24)
	type job struct {
		h     hdef
		what  string
		n     int
		extra int
	}
	var jobs []job
	for _, h := range hashes[:3] {
		for k := 7; k <= kmax; k++ {
			for _, d := range []int{-1, 0, 1, h.block - 1, h.block, h.block + 1} {
				n := 1<<uint(k) + d
				for _, what := range []string{"hkdf secret", "hkdf salt", "hkdf info", "hkdf prk", "pbkdf2 password", "pbkdf2 salt"} {
					if k > 16 && (what == "hkdf prk" || what == "hkdf salt") && d != 0 && d != h.block+1 {
						continue // HMAC key longer than a block: hashed once; two deltas suffice above 64 KiB
					}
					jobs = append(jobs, job{h, what, n, 0})
				}
			}
		}
		// PBKDF2 block index INT(i): key lengths around i = 255/256/257 and 65535/65536/65537
		for _, blocks := range []int{255, 256, 257, 65535, 65536, 65537} {
			for _, d := range []int{-1, 0, 1} {
				jobs = append(jobs, job{h, "pbkdf2 keyLen", blocks*h.size + d, 0})
			}
		}
		for _, it := range []int{255, 256, 257} {
			jobs = append(jobs, job{h, "pbkdf2 iterations", 2*h.size + 1, it})
		}
	}
	c.Set("long_input_jobs", len(jobs))
	c.ParallelFor(len(jobs), func(i int) {
		j := jobs[i]
		d := map[string]any{"hash": j.h.name, "long": j.what, "len": j.n}
		long := src[i%7 : i%7+j.n]
		short := append(make([]byte, 0, 24), shortSrc...) // private to this job, cap == len
		flong, glong := guard(long, i%2 == 0)
		var got, want []byte
		var p bool
		var val any
		switch j.what {
		case "hkdf secret", "hkdf salt":
			secret, salt := glong, short
			ms, mt := long, short
			if j.what == "hkdf salt" {
				secret, salt, ms, mt = short, glong, short, long
			}
			p, val, _ = vf.Protect(func() {
				prk := hkdf.Extract(j.h.new, secret, salt)
				r := hkdf.New(j.h.new, secret, salt, short)
				wipe(flong) // the caller wipes the long buffer right after New
				limit := 255 * j.h.size
				got = make([]byte, limit)
				if _, err := io.ReadFull(r, got[:limit-3]); err != nil {
					got = nil
				} else if n, err := r.Read(make([]byte, 4)); err == nil || n != 0 {
					got = []byte("a Read crossing the limit succeeded")
				} else if _, err := io.ReadFull(r, got[limit-3:]); err != nil {
					got = nil
				} else if n, err := r.Read(make([]byte, 1)); err == nil || n != 0 {
					got = []byte("more than 255*HashLen bytes available")
				}
				got = append(prk, got...)
				wipe(flong)
			})
			wprk := kdfref.HKDFExtract(j.h.new, ms, mt)
			want = append(append([]byte(nil), wprk...), kdfref.HKDFStream(j.h.new, wprk, short)...)
		case "hkdf prk":
			// long key x the WHOLE stream x the end of the stream (the key is hashed once, so this is cheap)
			limit := 255 * j.h.size
			p, val, _ = vf.Protect(func() {
				r := hkdf.Expand(j.h.new, glong, short)
				wipe(flong)
				got = make([]byte, limit)
				if _, err := io.ReadFull(r, got[:limit-3]); err != nil {
					got = nil
				} else if n, err := r.Read(make([]byte, 4)); err == nil || n != 0 {
					got = []byte("a Read crossing the limit succeeded")
				} else if _, err := io.ReadFull(r, got[limit-3:]); err != nil {
					got = nil
				} else if n, err := r.Read(make([]byte, 1)); err == nil || n != 0 {
					got = []byte("more than 255*HashLen bytes available")
				}
				wipe(flong)
			})
			// model: the naive stream re-keys HMAC with the long key for every block; a key longer than
			// the hash block is, by RFC 2104, the same as its digest - used for the full stream, while the
			// first three blocks are also computed with the long key itself
			mkey := long
			if len(long) > j.h.block {
				hh := j.h.new()
				hh.Write(long)
				mkey = hh.Sum(nil)
			}
			want = kdfref.HKDFStream(j.h.new, mkey, short)
			if !bytes.HasPrefix(want, kdfref.HKDFBlocks(j.h.new, long, short, 3)) {
				c.Violation("harness: RFC 2104 key shortening disagrees with the direct model", d)
				return
			}
		case "hkdf info":
			if j.n <= 1<<12+200 {
				// info up to 4 KiB: the whole stream and its end as well
				limit := 255 * j.h.size
				p, val, _ = vf.Protect(func() {
					r := hkdf.Expand(j.h.new, short, glong)
					got = make([]byte, limit)
					if _, err := io.ReadFull(r, got[:limit-3]); err != nil {
						got = nil
					} else if n, err := r.Read(make([]byte, 4)); err == nil || n != 0 {
						got = []byte("a Read crossing the limit succeeded")
					} else if _, err := io.ReadFull(r, got[limit-3:]); err != nil {
						got = nil
					} else if n, err := r.Read(make([]byte, 1)); err == nil || n != 0 {
						got = []byte("more than 255*HashLen bytes available")
					}
				})
				want = kdfref.HKDFStream(j.h.new, short, glong)
				break
			}
			p, val, _ = vf.Protect(func() {
				r := hkdf.Expand(j.h.new, short, glong)
				got = make([]byte, 2*j.h.size+1)
				// three reads: a part of T(1), across T(1)/T(2), into T(3)
				for _, seg := range [][2]int{{0, 5}, {5, j.h.size + 2}, {j.h.size + 2, 2*j.h.size + 1}} {
					if n, err := r.Read(got[seg[0]:seg[1]]); err != nil || n != seg[1]-seg[0] {
						got = nil
						return
					}
				}
			})
			want = kdfref.HKDFBlocks(j.h.new, short, long, 3)[:2*j.h.size+1]
		case "pbkdf2 password":
			p, val, _ = vf.Protect(func() { got = pbkdf2.Key(glong, short, 2, j.h.size+1, j.h.new) })
			want = kdfref.PBKDF2(j.h.new, long, short, 2, j.h.size+1)
		case "pbkdf2 salt":
			p, val, _ = vf.Protect(func() { got = pbkdf2.Key(short, glong, 2, j.h.size+1, j.h.new) })
			want = kdfref.PBKDF2(j.h.new, short, long, 2, j.h.size+1)
		case "pbkdf2 keyLen":
			long, flong = nil, nil
			p, val, _ = vf.Protect(func() { got = pbkdf2.Key(short, short[:8], 1, j.n, j.h.new) })
			want = kdfref.PBKDF2(j.h.new, short, short[:8], 1, j.n)
		case "pbkdf2 iterations":
			long, flong = nil, nil
			d["iter"] = j.extra
			p, val, _ = vf.Protect(func() { got = pbkdf2.Key(short, short[:8], j.extra, j.n, j.h.new) })
			want = kdfref.PBKDF2(j.h.new, short, short[:8], j.extra, j.n)
		}
		c.Eval(1)
		switch {
		case p:
			d["panic"] = fmt.Sprint(val)
			c.Violation("KDF panics on a long input ["+j.what+"]", d)
		case !intact(flong, long):
			c.Violation("KDF writes to the caller's buffer or its spare capacity [long "+j.what+"]", d)
		case !bytes.Equal(got, want):
			k := 0
			for k < len(got) && k < len(want) && got[k] == want[k] {
				k++
			}
			d["first_diff_at"], d["got_len"], d["want_len"] = k, len(got), len(want)
			c.Violation("KDF output != RFC model [long "+j.what+"]", d)
		}
		c.Nontrivial(fmt.Sprintf("long/%s/%s/%d/%d", j.h.name, j.what, j.n, j.extra))
	})
	c.Outcome("long inputs checked")
}

// ---------------------------------------------------------------- interleaved readers (hardening A/D)

// interleavedReaders: two readers A and B are built from the SAME info slice (with spare capacity or
// with cap == len; B with another key) and, for New, the same salt slice; their secrets/keys are
// wiped after construction. Every schedule of 4 reads over {A,B} x {1, HashLen, HashLen+1} bytes
// must give each reader the next bytes of its own RFC 5869 stream, a third reader C created from
// the same info slice after the schedule must start at T(1), and info must still be intact.
func interleavedReaders(c *vf.Ctx) {
	depth := 4
	for hi, h := range hashes[:3] {
		L := h.size
		sizes := []int{1, L, L + 1}
		nops := 2 * len(sizes)
		total := 1
		for i := 0; i < depth; i++ {
			total *= nops
		}
		info := c.Bytes("il-info", hi, 13)
		salt := c.Bytes("il-salt", hi, 16)
		secA, secB := c.Bytes("il-secret-a", hi, 32), c.Bytes("il-secret-b", hi, 40)
		prkA, prkB := kdfref.HKDFExtract(h.new, secA, salt), kdfref.HKDFExtract(h.new, secB, salt)
		streams := [2][]byte{kdfref.HKDFBlocks(h.new, prkA, info, depth+3), kdfref.HKDFBlocks(h.new, prkB, info, depth+3)}
		for variant := 0; variant < 2; variant++ {
			for _, spare := range []bool{true, false} {
				vname := []string{"Expand", "New"}[variant]
				label := fmt.Sprintf("%s/%s/info spare capacity=%v", h.name, vname, spare)
				c.ParallelFor(total, func(idx int) {
					finfo, ginfo := guard(info, spare)
					fsalt, gsalt := guard(salt, spare)
					mk := func(sec, prk []byte) io.Reader {
						fs, gs := guard(sec, !spare)
						fp, gp := guard(prk, !spare)
						var r io.Reader
						if variant == 0 {
							r = hkdf.Expand(h.new, gp, ginfo)
						} else {
							r = hkdf.New(h.new, gs, gsalt, ginfo)
						}
						wipe(fs)
						wipe(fp)
						return r
					}
					var hist []string
					d := map[string]any{"readers": label}
					pan, val, _ := vf.Protect(func() {
						rd := [2]io.Reader{mk(secA, prkA), mk(secB, prkB)}
						pos := [2]int{}
						for i, x := depth-1, idx; i >= 0; i-- {
							op := x % nops
							x /= nops
							who, n := op/len(sizes), sizes[op%len(sizes)]
							hist = append(hist, fmt.Sprintf("%c.Read(%d)", 'A'+who, n))
							buf := bytes.Repeat([]byte{0x5A}, n)
							got, err := rd[who].Read(buf)
							c.Transition(1)
							if err != nil || got != n || !bytes.Equal(buf, streams[who][pos[who]:pos[who]+n]) {
								d["history"], d["failing_step"] = hist, len(hist)-1
								c.Violation("hkdf readers that share caller slices disturb each other (Read is not the next bytes of the reader's own RFC 5869 stream)", d)
								return
							}
							pos[who] += n
							wipe(buf)
						}
						// a reader created afterwards from the same info slice starts at T(1)
						r3 := mk(secA, prkA)
						buf := make([]byte, L+1)
						if _, err := io.ReadFull(r3, buf); err != nil || !bytes.Equal(buf, streams[0][:L+1]) {
							d["history"] = hist
							c.Violation("hkdf reader created from an info slice that earlier readers used does not produce the RFC 5869 stream", d)
						}
					})
					c.Eval(1)
					if pan {
						d["panic"], d["history"] = fmt.Sprint(val), hist
						c.Violation("hkdf panics with interleaved readers", d)
						return
					}
					if !intact(finfo, info) || (variant == 1 && !intact(fsalt, salt)) {
						d["history"] = hist
						c.Violation("hkdf reader writes to the caller's info/salt buffer or its spare capacity", d)
					}
					c.TraceValidated(1)
					c.Nontrivial(fmt.Sprintf("il/%s/%d", label, idx))
				})
			}
		}
	}
	c.Outcome("interleaved readers checked")
}
