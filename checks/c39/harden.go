// C39 hardening pass (HARDEN.md): caller-owned buffers (PEM text, passphrase, returned block),
// the same key object written several times, key objects that come out of the parser written
// again, parse after a failed parse on the same buffers, long comments / passphrases, and key
// objects in the state "Precompute never called".
package main

import (
	"bytes"
	"crypto/ecdsa"
	"crypto/ed25519"
	"crypto/rsa"
	"crypto/x509"
	"encoding/pem"
	"fmt"
	"math/big"
	"os"
	"strings"

	"golang.org/x/crypto/ssh"
	kv "verif/ref/sshkeyv1"
	sr "verif/ref/sshsigref"
	"verif/vf"
)

const noPrecomputeClass = "MarshalPrivateKey panics for a valid RSA key on which Precompute was never called (Precomputed.Qinv == nil)"

func wipe(b []byte) {
	for i := range b {
		b[i] ^= 0xFF
	}
}

// freshRaw builds a NEW key object with the values of k (nothing shared with k).
func freshRaw(k *kv.Key, precompute bool) any {
	cp := func(x *big.Int) *big.Int { return new(big.Int).Set(x) }
	switch k.Type {
	case sr.RSA:
		r := &rsa.PrivateKey{PublicKey: rsa.PublicKey{N: cp(k.RSA.N), E: k.RSA.E}, D: cp(k.RSA.D), Primes: []*big.Int{cp(k.RSA.Primes[0]), cp(k.RSA.Primes[1])}}
		if precompute {
			r.Precompute()
		}
		return r
	case sr.ED25519:
		return ed25519.PrivateKey(append([]byte(nil), k.Ed25519...))
	default:
		e := k.ECDSA
		return &ecdsa.PrivateKey{PublicKey: ecdsa.PublicKey{Curve: e.Curve, X: cp(e.X), Y: cp(e.Y)}, D: cp(e.D)}
	}
}

// snapshot lists every value of a key object the marshaller could touch.
func snapshot(key any) string {
	switch k := key.(type) {
	case *rsa.PrivateKey:
		s := fmt.Sprintf("n=%x e=%d d=%x p=%x q=%x", k.N, k.E, k.D, k.Primes[0], k.Primes[1])
		if k.Precomputed.Qinv != nil {
			s += fmt.Sprintf(" dp=%x dq=%x qinv=%x", k.Precomputed.Dp, k.Precomputed.Dq, k.Precomputed.Qinv)
		}
		return s
	case *ecdsa.PrivateKey:
		return fmt.Sprintf("x=%x y=%x d=%x", k.X, k.Y, k.D)
	case ed25519.PrivateKey:
		return fmt.Sprintf("%x", []byte(k))
	case *ed25519.PrivateKey:
		return fmt.Sprintf("%x", []byte(*k))
	}
	return fmt.Sprintf("%T", key)
}

// decodePlain: reference decode of an unencrypted block; requires key, comment and, byte for
// byte, the reference encoding.
func decodePlain(blk *pem.Block, want *kv.Key, comment string) string {
	_, s, rk, err := refDecode(pem.EncodeToMemory(blk))
	if err != nil || s == nil {
		return "not a well-formed consistent file: " + fmt.Sprint(err)
	}
	if !sameRefKey(rk, want) {
		return "decodes to another key"
	}
	if s.Comment != comment {
		return "decodes to another comment"
	}
	if !bytes.Equal(kv.Encode(want, comment, s.Check1), blk.Bytes) {
		return "differs from the reference encoding"
	}
	return ""
}

func partH(c *vf.Ctx, keys []tkey, g *keygen) {
	hardenPlain(c, keys)
	hardenEncrypted(c, keys)
	hardenLong(c, keys, g)
	hardenNoPrecompute(c, keys)
}

// hardenPlain: every key (standard and value-class), unencrypted.
func hardenPlain(c *vf.Ctx, keys []tkey) {
	c.ParallelFor(len(keys), func(i int) {
		t := keys[i]
		det := func(x any) map[string]any { return map[string]any{"key": t.name, "info": x} }
		key := freshRaw(t.k, true)
		before := snapshot(key)
		wantPub := t.k.Public().Blob()
		// B: ONE key object written three times with comments of different padding classes; the
		// block handed out is overwritten by the caller after each call
		comments := []string{"first comment", "2", ""}
		var lastPEM []byte
		for ci, cm := range comments {
			var blk *pem.Block
			var err error
			if p, v, _ := vf.Protect(func() { blk, err = ssh.MarshalPrivateKey(key, cm) }); p || err != nil {
				c.Violation("MarshalPrivateKey fails on the second/third use of one key object", det(fmt.Sprint(ci, v, err)))
				return
			}
			c.Eval(1)
			if d := decodePlain(blk, t.k, cm); d != "" {
				c.Violation("MarshalPrivateKey: repeated use of one key object: written file "+d, det(ci))
				return
			}
			if s := snapshot(key); s != before {
				c.Violation("MarshalPrivateKey modifies the key object it was given", det(ci))
				return
			}
			lastPEM = pem.EncodeToMemory(blk)
			wipe(blk.Bytes)
		}
		// A: the PEM buffer is the caller's: untouched by the parsers, and the parsed key survives
		// the buffer being overwritten
		for _, which := range []string{"ParseRawPrivateKey", "ParsePrivateKey"} {
			buf := append([]byte(nil), lastPEM...)
			var got any
			var err error
			if p, v, _ := vf.Protect(func() {
				if which == "ParseRawPrivateKey" {
					got, err = ssh.ParseRawPrivateKey(buf)
				} else {
					got, err = ssh.ParsePrivateKey(buf)
				}
			}); p || err != nil {
				c.Violation(which+" fails on a file written by MarshalPrivateKey (hardening)", det(fmt.Sprint(v, err)))
				return
			}
			c.Eval(1)
			if !bytes.Equal(buf, lastPEM) {
				c.Violation(which+" modifies the PEM bytes it was given", det(nil))
				return
			}
			wipe(buf)
			if sg, ok := got.(ssh.Signer); ok {
				msg := c.Bytes("msgH", i, 24)
				sig, err := sg.Sign(vf.NewRand("h-sign"), msg)
				if err != nil || !bytes.Equal(sg.PublicKey().Marshal(), wantPub) || sg.PublicKey().Verify(msg, sig) != nil {
					c.Violation("signer from ParsePrivateKey unusable after the caller overwrote the PEM buffer", det(fmt.Sprint(err)))
				}
				continue
			}
			if err := sameKey(got, t.k); err != nil {
				c.Violation("key from ParseRawPrivateKey changes when the caller overwrites the PEM buffer", det(err.Error()))
				return
			}
			if fail, d := useKey(got, wantPub, c.Bytes("msgH", i, 24)); fail != "" {
				c.Violation("key from ParseRawPrivateKey after the PEM buffer was overwritten: "+fail, det(d))
				return
			}
			// D: the object that came OUT of the parser is written again (and once more)
			for round := 0; round < 2; round++ {
				cm := fmt.Sprintf("re-marshal %d", round)
				var blk *pem.Block
				if p, v, _ := vf.Protect(func() { blk, err = ssh.MarshalPrivateKey(got, cm) }); p || err != nil {
					c.Violation("MarshalPrivateKey fails on a key object returned by ParseRawPrivateKey", det(fmt.Sprint(v, err)))
					return
				}
				c.Eval(1)
				if d := decodePlain(blk, t.k, cm); d != "" {
					c.Violation("MarshalPrivateKey(ParseRawPrivateKey(file)): written file "+d, det(round))
					return
				}
				var again any
				if p, v, _ := vf.Protect(func() { again, err = ssh.ParseRawPrivateKey(pem.EncodeToMemory(blk)) }); p || err != nil {
					c.Violation("ParseRawPrivateKey rejects MarshalPrivateKey(ParseRawPrivateKey(file))", det(fmt.Sprint(v, err)))
					return
				}
				if err := sameKey(again, t.k); err != nil {
					c.Violation("parse-marshal-parse changes the key", det(err.Error()))
					return
				}
				got = again
			}
		}
		// A: an ed25519 key given by value: the caller wipes its copy after the call
		if ek, ok := key.(ed25519.PrivateKey); ok {
			blk, err := ssh.MarshalPrivateKey(ek, "wiped")
			if err == nil {
				keep := append([]byte(nil), blk.Bytes...)
				wipe(ek)
				if !bytes.Equal(keep, blk.Bytes) {
					c.Violation("block returned by MarshalPrivateKey changes when the caller wipes the key", det(nil))
				}
			}
		}
		c.Nontrivial("H/plain/" + t.name)
	})
}

// hardenEncrypted: standard keys; the passphrase and PEM buffers are reused by the caller; a
// failed parse (wrong passphrase, missing passphrase) precedes the successful one.
func hardenEncrypted(c *vf.Ctx, keys []tkey) {
	var sel []tkey
	for _, k := range keys {
		if !k.class && (k.k.Type != sr.RSA || k.name == "rsa1024" || c.Thorough) {
			sel = append(sel, k)
		}
	}
	c.ParallelFor(len(sel), func(i int) {
		t := sel[i]
		det := func(x any) map[string]any { return map[string]any{"key": t.name, "info": x} }
		key := freshRaw(t.k, true)
		before := snapshot(key)
		wantPub := t.k.Public().Blob()
		origPass := []byte("correct horse " + t.name)
		passBuf := make([]byte, 64)
		pass := passBuf[:copy(passBuf, origPass)]
		comment := "enc " + t.name
		var blk *pem.Block
		var err error
		if p, v, _ := vf.Protect(func() { blk, err = ssh.MarshalPrivateKeyWithPassphrase(key, comment, pass) }); p || err != nil {
			c.Violation("MarshalPrivateKeyWithPassphrase fails (hardening)", det(fmt.Sprint(v, err)))
			return
		}
		c.Eval(1)
		if !bytes.Equal(pass, origPass) {
			c.Violation("MarshalPrivateKeyWithPassphrase modifies the passphrase slice", det(nil))
			return
		}
		if snapshot(key) != before {
			c.Violation("MarshalPrivateKeyWithPassphrase modifies the key object it was given", det(nil))
			return
		}
		wipe(passBuf) // the caller clears the passphrase
		text := pem.EncodeToMemory(blk)
		wipe(blk.Bytes)
		// reference decryption with the ORIGINAL passphrase
		bin, _ := kv.Dearmor(text)
		f, ferr := kv.ParseFile(bin)
		if ferr != nil {
			c.Violation("written encrypted file is not a container (hardening)", det(ferr.Error()))
			return
		}
		sec, derr := kv.Decrypt(f, origPass)
		var es *kv.Section
		if derr == nil {
			es, derr = kv.ParseSection(sec)
		}
		if derr != nil || kv.WellFormedEncrypted(f, es) != nil || kv.Consistent(f, es) != nil {
			c.Violation("file written by MarshalPrivateKeyWithPassphrase does not decrypt (reference) with the passphrase that was given, after the caller cleared its passphrase slice", det(fmt.Sprint(derr)))
			return
		}
		if ek, err := kv.KeyOf(es); err != nil || !sameRefKey(ek, t.k) || es.Comment != comment {
			c.Violation("file written by MarshalPrivateKeyWithPassphrase decrypts (reference) to another key or comment (hardening)", det(fmt.Sprint(err)))
			return
		}
		// D: failed parses first, on the same text and passphrase buffers
		buf := append([]byte(nil), text...)
		pw := passBuf[:copy(passBuf, "wrong horse")]
		_, err = ssh.ParseRawPrivateKeyWithPassphrase(buf, pw)
		c.Eval(1)
		if err != x509.IncorrectPasswordError {
			c.Violation("wrong passphrase does not yield x509.IncorrectPasswordError", det(fmt.Sprint(err)))
		}
		_, err = ssh.ParseRawPrivateKey(buf)
		if _, ok := err.(*ssh.PassphraseMissingError); !ok {
			c.Violation("encrypted file without passphrase: error is not *PassphraseMissingError", det(fmt.Sprint(err)))
		}
		if !bytes.Equal(buf, text) || string(pw) != "wrong horse" {
			c.Violation("a failed parse modifies the PEM bytes or the passphrase it was given", det(nil))
			return
		}
		pw = passBuf[:copy(passBuf, origPass)]
		var got any
		if p, v, _ := vf.Protect(func() { got, err = ssh.ParseRawPrivateKeyWithPassphrase(buf, pw) }); p || err != nil {
			c.Violation("ParseRawPrivateKeyWithPassphrase fails after a failed attempt on the same buffers", det(fmt.Sprint(v, err)))
			return
		}
		c.Eval(1)
		if !bytes.Equal(buf, text) || !bytes.Equal(pw, origPass) {
			c.Violation("ParseRawPrivateKeyWithPassphrase modifies the PEM bytes or the passphrase it was given", det(nil))
			return
		}
		wipe(buf)
		wipe(passBuf)
		if err := sameKey(got, t.k); err != nil {
			c.Violation("key from ParseRawPrivateKeyWithPassphrase changes when the caller clears its buffers", det(err.Error()))
			return
		}
		if fail, d := useKey(got, wantPub, c.Bytes("msgHe", i, 24)); fail != "" {
			c.Violation("key from ParseRawPrivateKeyWithPassphrase after the buffers were cleared: "+fail, det(d))
		}
		// and the wrong passphrase AFTER the right one again
		if _, err = ssh.ParseRawPrivateKeyWithPassphrase(text, []byte("wrong horse")); err != x509.IncorrectPasswordError {
			c.Violation("wrong passphrase does not yield x509.IncorrectPasswordError", det(fmt.Sprint("after a successful parse: ", err)))
		}
		c.Nontrivial("H/enc/" + t.name)
	})
}

// hardenLong: comments and passphrases of 2^k+{-1,0,1} bytes and around the SHA-512 / bcrypt
// length boundaries.
func hardenLong(c *vf.Ctx, keys []tkey, g *keygen) {
	byName := map[string]tkey{}
	for _, k := range keys {
		byName[k.name] = k
	}
	type job struct {
		t       tkey
		comment int
		pass    int // 0 = unencrypted
		keygen  bool
	}
	var jobs []job
	ks := []int{8, 12, 16}
	if c.Thorough {
		ks = append(ks, 20, 22)
	}
	for _, kn := range []string{"ed25519", "p256", "rsa1024"} {
		for _, k := range ks {
			for _, d := range []int{-1, 0, 1} {
				jobs = append(jobs, job{byName[kn], 1<<k + d, 0, kn == "ed25519" && d >= 0 || c.Thorough})
			}
		}
	}
	// encrypted with long comments (AES-CTR over many blocks; padding to 16)
	for _, L := range []int{255, 256, 257, 65535, 65536, 65537} {
		jobs = append(jobs, job{byName["ed25519"], L, 1, L == 65536})
	}
	// passphrase lengths: bcrypt's classic 72-byte limit, SHA-512 padding (111/112) and block
	// (127/128/129) boundaries, 2^8, 2^16
	passLens := []int{71, 72, 73, 111, 112, 127, 128, 129, 255, 256, 257, 65536}
	for _, L := range passLens {
		jobs = append(jobs, job{byName["ed25519"], 5, L, L == 73 || L == 129 || c.Thorough})
	}
	c.ParallelFor(len(jobs), func(i int) {
		j := jobs[i]
		det := map[string]any{"key": j.t.name, "comment_len": j.comment, "passphrase_len": j.pass}
		comment := strings.Repeat("c", j.comment)
		var pass []byte
		if j.pass > 0 {
			pass = bytes.Repeat([]byte("pW"), j.pass)[:j.pass]
			if j.pass > 1 {
				pass[j.pass-1] = 'Z' // the last byte matters
			}
		}
		key := freshRaw(j.t.k, true)
		var blk *pem.Block
		var err error
		if p, v, _ := vf.Protect(func() {
			if pass == nil {
				blk, err = ssh.MarshalPrivateKey(key, comment)
			} else {
				blk, err = ssh.MarshalPrivateKeyWithPassphrase(key, comment, pass)
			}
		}); p || err != nil {
			det["err"] = fmt.Sprint(v, err)
			c.Violation("MarshalPrivateKey fails for a long comment or passphrase", det)
			return
		}
		c.Eval(1)
		text := pem.EncodeToMemory(blk)
		if pass == nil {
			if d := decodePlain(blk, j.t.k, comment); d != "" {
				det["diff"] = d
				c.Violation("MarshalPrivateKey with a long comment: written file "+d, det)
				return
			}
		} else {
			bin, _ := kv.Dearmor(text)
			f, ferr := kv.ParseFile(bin)
			var es *kv.Section
			if ferr == nil {
				var sec []byte
				if sec, ferr = kv.Decrypt(f, pass); ferr == nil {
					es, ferr = kv.ParseSection(sec)
				}
			}
			if ferr != nil || kv.WellFormedEncrypted(f, es) != nil || kv.Consistent(f, es) != nil {
				det["err"] = fmt.Sprint(ferr)
				c.Violation("MarshalPrivateKeyWithPassphrase with a long comment or passphrase: reference decryption does not yield a consistent private section", det)
				return
			}
			if ek, err := kv.KeyOf(es); err != nil || !sameRefKey(ek, j.t.k) || es.Comment != comment {
				c.Violation("MarshalPrivateKeyWithPassphrase with a long comment or passphrase: decrypts (reference) to another key or comment", det)
				return
			}
		}
		var got any
		if p, v, _ := vf.Protect(func() {
			if pass == nil {
				got, err = ssh.ParseRawPrivateKey(text)
			} else {
				got, err = ssh.ParseRawPrivateKeyWithPassphrase(text, pass)
			}
		}); p || err != nil {
			det["err"] = fmt.Sprint(v, err)
			c.Violation("parser rejects a file with a long comment or passphrase written by MarshalPrivateKey", det)
			return
		}
		c.Eval(1)
		if err := sameKey(got, j.t.k); err != nil {
			c.Violation("file with a long comment or passphrase parses to a different key", det)
			return
		}
		if pass != nil && j.pass > 1 {
			// one byte less / last byte different: must be a WRONG passphrase
			for _, w := range [][]byte{pass[:j.pass-1], append(append([]byte(nil), pass[:j.pass-1]...), 'Y')} {
				_, err := ssh.ParseRawPrivateKeyWithPassphrase(text, w)
				c.Eval(1)
				if err != x509.IncorrectPasswordError {
					det["err"] = fmt.Sprint(err)
					c.Violation("long passphrase: a passphrase differing in the last byte does not yield x509.IncorrectPasswordError", det)
				}
				if !c.Thorough {
					break
				}
			}
		}
		// the reference encoder's file with the same comment (what ssh-keygen would write)
		if pass == nil {
			goParseBoth(c, "file from the reference encoder (long comment)", det, kv.Armor(kv.Encode(j.t.k, comment, 0x5a5a0000+uint32(i))), nil, j.t.k, j.t.k.Public().Blob(), c.Bytes("msgHl", i, 20))
		}
		if g.ok() && j.keygen {
			path := g.write(fmt.Sprintf("h%d", i), text)
			blob, cm, err := g.pubOf(path, string(pass))
			os.Remove(path)
			c.Eval(1)
			if !isDown(c, err) {
				if err != nil {
					det["err"] = err.Error()
					c.Violation("ssh-keygen -y rejects a file written by MarshalPrivateKey (long comment or passphrase)", det)
				} else if !bytes.Equal(blob, j.t.k.Public().Blob()) || cm != comment {
					c.Violation("ssh-keygen -y prints another key or comment for a file written by MarshalPrivateKey (long comment or passphrase)", det)
				}
			}
		}
		c.Nontrivial(fmt.Sprintf("H/long/%s/c%d/p%d", j.t.name, j.comment, j.pass))
	})
}

// hardenNoPrecompute: (D/E) an *rsa.PrivateKey assembled from its numbers without calling
// Precompute is a valid key (crypto/rsa computes what it needs on the fly). Writing it must
// give the same file as for the precomputed object.
func hardenNoPrecompute(c *vf.Ctx, keys []tkey) {
	for _, t := range keys {
		if t.k.Type != sr.RSA || (t.class && !c.Thorough && t.name != keysFirstClassRSA(keys)) {
			continue
		}
		key := freshRaw(t.k, false)
		var blk *pem.Block
		var err error
		p, v, _ := vf.Protect(func() { blk, err = ssh.MarshalPrivateKey(key, "np") })
		c.Eval(1)
		det := map[string]any{"key": t.name}
		switch {
		case p:
			det["panic"] = fmt.Sprint(v)
			c.Violation(noPrecomputeClass, det)
		case err != nil:
			det["err"] = err.Error()
			c.Violation("MarshalPrivateKey fails for a valid RSA key on which Precompute was never called", det)
		default:
			if d := decodePlain(blk, t.k, "np"); d != "" {
				c.Violation("MarshalPrivateKey for an RSA key without precomputed values: written file "+d, det)
			}
		}
		c.Nontrivial("H/noprecompute/" + t.name)
	}
}

func keysFirstClassRSA(keys []tkey) string {
	for _, k := range keys {
		if k.class && k.k.Type == sr.RSA {
			return k.name
		}
	}
	return ""
}
