// Package detkeys derives key pairs deterministically from a label, so that every
// run of the C39/C40/C41 checks with the same seed uses the same values. (The
// standard library generators ignore a caller supplied random source since Go 1.26.)
// Keys are assembled from their mathematical definition with math/big and the
// standard library; nothing here comes from golang.org/x/crypto.
package detkeys

import (
	"crypto/ecdsa"
	"crypto/ed25519"
	"crypto/elliptic"
	"crypto/rsa"
	"fmt"
	"math/big"
	"sync"

	"verif/vf"
)

// Ed25519 returns the key whose seed is derived from label.
func Ed25519(label string) ed25519.PrivateKey {
	return ed25519.NewKeyFromSeed(vf.DetBytes("ed25519|"+label, 32))
}

// ECDSA returns the key with private scalar 1 + (H(label) mod (n-1)).
func ECDSA(curve elliptic.Curve, label string) *ecdsa.PrivateKey {
	n := curve.Params().N
	raw := new(big.Int).SetBytes(vf.DetBytes("ecdsa|"+curve.Params().Name+"|"+label, (n.BitLen()+7)/8+8))
	d := raw.Mod(raw, new(big.Int).Sub(n, big.NewInt(1)))
	d.Add(d, big.NewInt(1))
	x, y := curve.ScalarBaseMult(d.Bytes())
	return &ecdsa.PrivateKey{PublicKey: ecdsa.PublicKey{Curve: curve, X: x, Y: y}, D: d}
}

var rsaCache sync.Map // "bits|label" -> *rsa.PrivateKey

func prime(bits int, label string) *big.Int {
	for i := 0; ; i++ {
		b := vf.DetBytes(fmt.Sprintf("prime|%d|%s|%d", bits, label, i), (bits+7)/8)
		b[0] |= 0xC0 // two top bits: the product of two such primes has exactly 2*bits bits
		b[len(b)-1] |= 1
		p := new(big.Int).SetBytes(b)
		if p.ProbablyPrime(24) {
			// e = 65537 must be invertible mod p-1
			m := new(big.Int).Sub(p, big.NewInt(1))
			if new(big.Int).GCD(nil, nil, m, big.NewInt(65537)).Cmp(big.NewInt(1)) == 0 {
				return p
			}
		}
	}
}

// RSA returns a two-prime key with the given modulus size (a multiple of 16) and e = 65537,
// d = e^-1 mod lcm(p-1, q-1), p > q, CRT values precomputed. Results are cached.
func RSA(bits int, label string) *rsa.PrivateKey {
	ck := fmt.Sprintf("%d|%s", bits, label)
	if v, ok := rsaCache.Load(ck); ok {
		return v.(*rsa.PrivateKey)
	}
	p := prime(bits/2, label+"|p")
	q := prime(bits/2, label+"|q")
	if p.Cmp(q) < 0 {
		p, q = q, p
	}
	one := big.NewInt(1)
	p1, q1 := new(big.Int).Sub(p, one), new(big.Int).Sub(q, one)
	g := new(big.Int).GCD(nil, nil, p1, q1)
	lcm := new(big.Int).Div(new(big.Int).Mul(p1, q1), g)
	d := new(big.Int).ModInverse(big.NewInt(65537), lcm)
	k := &rsa.PrivateKey{PublicKey: rsa.PublicKey{N: new(big.Int).Mul(p, q), E: 65537}, D: d, Primes: []*big.Int{p, q}}
	if err := k.Validate(); err != nil {
		panic("detkeys: " + err.Error())
	}
	k.Precompute()
	v, _ := rsaCache.LoadOrStore(ck, k)
	return v.(*rsa.PrivateKey)
}
