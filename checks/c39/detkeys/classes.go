package detkeys

import (
	"crypto/ecdsa"
	"crypto/ed25519"
	"crypto/elliptic"
	"crypto/rsa"
	"encoding/binary"
	"fmt"
	"math/big"

	"verif/vf"
)

// Value classes: keys whose components sit on the encoding boundaries that a random key
// hits only rarely (a coordinate with leading zero bytes: 1 key in 128) or never (the
// generators above always set the top bits of RSA primes).
//
// A ClassKey carries exactly one of RSA / ECDSA / Ed25519.

type ClassKey struct {
	Name    string
	RSA     *rsa.PrivateKey
	ECDSA   *ecdsa.PrivateKey
	Ed25519 ed25519.PrivateKey
}

// ecShort lists, per curve, the smallest i >= 1 such that the public point of the private
// scalar d = floor(N/3) + i has the stated shape (found once by exhaustive search upwards
// from i = 1; re-verified every time a key is built). x1: X one byte short, Y full;
// y1: Y one byte short; xy1: both one byte short; x2 / y2: two bytes short.
// (OpenSSH refuses private scalars below sqrt(N), hence the large base.)
var ecShort = map[string]map[string]int64{
	"P-256": {"x1": 36, "y1": 127, "xy1": 449, "x2": 1566, "y2": 77969},
	"P-384": {"x1": 54, "y1": 84, "xy1": 39462, "x2": 146248, "y2": 2389},
	"P-521": {"x1": 1, "y1": 3, "xy1": 2, "x2": 482, "y2": 442},
}

// ECShortClasses is the order in which the shapes are enumerated.
var ECShortClasses = []string{"x1", "y1", "xy1", "x2", "y2"}

func fromScalar(curve elliptic.Curve, d *big.Int) *ecdsa.PrivateKey {
	x, y := curve.ScalarBaseMult(d.Bytes())
	return &ecdsa.PrivateKey{PublicKey: ecdsa.PublicKey{Curve: curve, X: x, Y: y}, D: d}
}

// ECDSAShort returns the key of the given shape class on curve.
func ECDSAShort(curve elliptic.Curve, class string) *ecdsa.PrivateKey {
	i, ok := ecShort[curve.Params().Name][class]
	if !ok {
		panic("detkeys: no such class " + class)
	}
	d := new(big.Int).Div(curve.Params().N, big.NewInt(3))
	d.Add(d, big.NewInt(i))
	k := fromScalar(curve, d)
	n := (curve.Params().BitSize + 7) / 8
	sx, sy := n-len(k.X.Bytes()), n-len(k.Y.Bytes())
	want := map[string][2]int{"x1": {1, 0}, "y1": {0, 1}, "xy1": {1, 1}, "x2": {2, 0}, "y2": {0, 2}}[class]
	if sx != want[0] || sy != want[1] {
		panic(fmt.Sprintf("detkeys: table entry %s/%s does not have the stated shape (%d,%d)", curve.Params().Name, class, sx, sy))
	}
	return k
}

// ECDSAScalar returns a key whose private scalar has `zeros` leading zero bytes in the
// fixed-width representation (zeros = 0: full width) and whose first non-zero byte has
// its top bit set or clear (the mpint sign-pad boundary).
func ECDSAScalar(curve elliptic.Curve, zeros int, topSet bool, label string) *ecdsa.PrivateKey {
	n := (curve.Params().N.BitLen() + 7) / 8
	for j := 0; ; j++ {
		b := vf.DetBytes(fmt.Sprintf("ecscalar|%s|%d|%v|%s|%d", curve.Params().Name, zeros, topSet, label, j), n)
		for i := 0; i < zeros; i++ {
			b[i] = 0
		}
		k := zeros
		if zeros == 0 && curve.Params().N.BitLen()%8 != 0 {
			// P-521: the top byte holds a single bit; leave it zero and put the boundary on
			// the following byte (66 byte scalars occur among the ordinary keys)
			b[0] = 0
			k = 1
		}
		if topSet {
			b[k] |= 0x80
		} else {
			b[k] = b[k]&0x7f | 0x40
		}
		d := new(big.Int).SetBytes(b)
		if d.Sign() > 0 && d.Cmp(curve.Params().N) < 0 {
			return fromScalar(curve, d)
		}
	}
}

// Ed25519ZeroSeed returns the key whose seed starts with `zeros` zero bytes (32: all zero).
func Ed25519ZeroSeed(zeros int, label string) ed25519.PrivateKey {
	seed := vf.DetBytes("edzeroseed|"+label, 32)
	for i := 0; i < zeros; i++ {
		seed[i] = 0
	}
	return ed25519.NewKeyFromSeed(seed)
}

// edPubZero: counters i (seed = 5a 00.. || uint64 i) whose PUBLIC key starts with one / two
// zero bytes (smallest such i, found by search from 0; re-verified when used).
var edPubZero = map[int]uint64{1: 162, 2: 33124}

// Ed25519ZeroPub returns a key whose public key starts with `zeros` (1 or 2) zero bytes.
func Ed25519ZeroPub(zeros int) ed25519.PrivateKey {
	seed := make([]byte, 32)
	seed[0] = 0x5a
	binary.BigEndian.PutUint64(seed[24:], edPubZero[zeros])
	k := ed25519.NewKeyFromSeed(seed)
	for i := 0; i < zeros; i++ {
		if k[32+i] != 0 {
			panic("detkeys: ed25519 table entry does not have the stated shape")
		}
	}
	return k
}

// ---- RSA ----

var (
	one = big.NewInt(1)
	e64 = big.NewInt(65537)
)

// primeShaped finds a prime of exactly `bits` bits with the two top bits set; when
// low16one is set its low 16 bits are 0x0001 (p-1 divisible by 2^16).
func primeShaped(bits int, label string, low16one bool) *big.Int {
	n := (bits + 7) / 8
	excess := uint(8*n - bits)
	for i := 0; ; i++ {
		b := vf.DetBytes(fmt.Sprintf("primeShaped|%d|%s|%d", bits, label, i), n)
		b[0] &= 0xff >> excess
		b[0] |= 0xC0 >> excess
		if excess == 7 {
			b[0] = 1
			b[1] |= 0x80
		}
		b[n-1] |= 1
		if low16one {
			b[n-1], b[n-2] = 1, 0
		}
		p := new(big.Int).SetBytes(b)
		if p.ProbablyPrime(24) && new(big.Int).GCD(nil, nil, new(big.Int).Sub(p, one), e64).Cmp(one) == 0 {
			return p
		}
	}
}

func rsaFromPrimes(p, q *big.Int) *rsa.PrivateKey {
	if p.Cmp(q) < 0 {
		p, q = q, p
	}
	p1, q1 := new(big.Int).Sub(p, one), new(big.Int).Sub(q, one)
	g := new(big.Int).GCD(nil, nil, p1, q1)
	lcm := new(big.Int).Div(new(big.Int).Mul(p1, q1), g)
	d := new(big.Int).ModInverse(e64, lcm)
	k := &rsa.PrivateKey{PublicKey: rsa.PublicKey{N: new(big.Int).Mul(p, q), E: 65537}, D: d, Primes: []*big.Int{p, q}}
	if err := k.Validate(); err != nil {
		panic("detkeys: " + err.Error())
	}
	k.Precompute()
	return k
}

// RSAOddSize: p has 520 bits, q 519 bits, so n has 1039 bits: n and q are encoded WITHOUT
// the mpint sign-pad byte (top bit of the first byte clear), p with it.
func RSAOddSize(label string) *rsa.PrivateKey {
	return cached("rsaodd|"+label, func() *rsa.PrivateKey {
		k := rsaFromPrimes(primeShaped(520, label+"|p", false), primeShaped(519, label+"|q", false))
		if k.N.BitLen() != 1039 {
			panic("detkeys: odd size key has the wrong length")
		}
		return k
	})
}

// RSAShortD: both primes are 1 mod 2^16, hence lcm(p-1, q-1) and with it d are at least two
// bytes shorter than n.
func RSAShortD(label string) *rsa.PrivateKey {
	return cached("rsashortd|"+label, func() *rsa.PrivateKey {
		k := rsaFromPrimes(primeShaped(512, label+"|p", true), primeShaped(512, label+"|q", true))
		if len(k.D.Bytes()) > len(k.N.Bytes())-2 {
			panic("detkeys: d is not short")
		}
		return k
	})
}

// RSAShortIqmp: q is chosen as t^-1 mod p for a t at least two bytes shorter than p, so the
// stored CRT coefficient iqmp = q^-1 mod p = t has leading zero bytes in fixed width.
func RSAShortIqmp(label string) *rsa.PrivateKey {
	return cached("rsashortiqmp|"+label, func() *rsa.PrivateKey {
		p := primeShaped(512, label+"|p", false)
		t := new(big.Int).SetBytes(vf.DetBytes("iqmp|"+label, 62))
		t.SetBit(t, 8*62-1, 1)
		for ; ; t.Add(t, one) {
			q := new(big.Int).ModInverse(t, p)
			if q == nil || q.BitLen() != 512 || q.Bit(0) == 0 || new(big.Int).Mul(p, q).BitLen() != 1024 {
				continue
			}
			if !q.ProbablyPrime(24) || new(big.Int).GCD(nil, nil, new(big.Int).Sub(q, one), e64).Cmp(one) != 0 {
				continue
			}
			k := rsaFromPrimes(p, q)
			if k.Precomputed.Qinv.Cmp(t) != 0 || len(t.Bytes()) > 62 {
				panic("detkeys: iqmp is not the chosen short value")
			}
			return k
		}
	})
}

// RSATopBits returns four 1024-bit keys (always four, possibly repeating a key under two
// names, so that the enumerated shape does not depend on the seed): the first keys of the
// label's sequence whose d / iqmp has the top bit of its first byte set / clear (with /
// without the mpint sign-pad byte).
func RSATopBits(label string) []ClassKey {
	preds := []struct {
		name string
		ok   func(k *rsa.PrivateKey) bool
	}{
		{"rsa1024-d-top-set", func(k *rsa.PrivateKey) bool { return k.D.Bytes()[0]&0x80 != 0 }},
		{"rsa1024-d-top-clear", func(k *rsa.PrivateKey) bool { return k.D.Bytes()[0]&0x80 == 0 }},
		{"rsa1024-iqmp-top-set", func(k *rsa.PrivateKey) bool { return k.Precomputed.Qinv.Bytes()[0]&0x80 != 0 }},
		{"rsa1024-iqmp-top-clear", func(k *rsa.PrivateKey) bool { return k.Precomputed.Qinv.Bytes()[0]&0x80 == 0 }},
	}
	var out []ClassKey
	for _, p := range preds {
		for j := 0; ; j++ {
			k := RSA(1024, fmt.Sprintf("%s|top|%d", label, j))
			if p.ok(k) {
				out = append(out, ClassKey{Name: p.name, RSA: k})
				break
			}
		}
	}
	return out
}

func cached(key string, mk func() *rsa.PrivateKey) *rsa.PrivateKey {
	if v, ok := rsaCache.Load(key); ok {
		return v.(*rsa.PrivateKey)
	}
	v, _ := rsaCache.LoadOrStore(key, mk())
	return v.(*rsa.PrivateKey)
}

// Classes returns every value-class key. The ECDSA coordinate classes and the Ed25519
// public-key classes are fixed (tables above); the others derive from label.
func Classes(label string) []ClassKey {
	var out []ClassKey
	for _, cv := range []elliptic.Curve{elliptic.P256(), elliptic.P384(), elliptic.P521()} {
		nm := map[string]string{"P-256": "p256", "P-384": "p384", "P-521": "p521"}[cv.Params().Name]
		for _, cl := range ECShortClasses {
			out = append(out, ClassKey{Name: nm + "-point-" + cl, ECDSA: ECDSAShort(cv, cl)})
		}
		out = append(out,
			ClassKey{Name: nm + "-scalar-1-zero-byte", ECDSA: ECDSAScalar(cv, 1, true, label)},
			ClassKey{Name: nm + "-scalar-2-zero-bytes", ECDSA: ECDSAScalar(cv, 2, false, label)},
			ClassKey{Name: nm + "-scalar-top-set", ECDSA: ECDSAScalar(cv, 0, true, label)},
			ClassKey{Name: nm + "-scalar-top-clear", ECDSA: ECDSAScalar(cv, 0, false, label)})
	}
	out = append(out,
		ClassKey{Name: "ed25519-seed-1-zero-byte", Ed25519: Ed25519ZeroSeed(1, label)},
		ClassKey{Name: "ed25519-seed-4-zero-bytes", Ed25519: Ed25519ZeroSeed(4, label)},
		ClassKey{Name: "ed25519-seed-all-zero", Ed25519: Ed25519ZeroSeed(32, label)},
		ClassKey{Name: "ed25519-public-1-zero-byte", Ed25519: Ed25519ZeroPub(1)},
		ClassKey{Name: "ed25519-public-2-zero-bytes", Ed25519: Ed25519ZeroPub(2)},
		ClassKey{Name: "rsa1039-n-and-q-unpadded", RSA: RSAOddSize(label)},
		ClassKey{Name: "rsa1024-d-2-bytes-short", RSA: RSAShortD(label)},
		ClassKey{Name: "rsa1024-iqmp-2-bytes-short", RSA: RSAShortIqmp(label)})
	return append(out, RSATopBits(label)...)
}
