// C39: OpenSSH private keys round-trip (MarshalPrivateKey* <-> ParseRawPrivateKey*,
// ssh-keygen as additional oracle when present) and every accepted file is internally
// consistent.
//
// Parts:
//
//	A  grid key type x passphrase class x comment: Marshal -> reference decode of the
//	   written file (byte for byte for unencrypted files) -> Parse*, signer, wrong
//	   passphrases, missing passphrase; ssh-keygen -y / -p on the Go-written file.
//	B  files written by the reference encoder (the model of what ssh-keygen writes) and,
//	   when the binary is present, by ssh-keygen itself (types x passphrase x cipher x
//	   rounds) -> Parse* gives the same key as the reference decoder.
//	C  every single fault of a valid unencrypted file (outer public key, private value,
//	   embedded public parts, check-ints, every padding byte, RSA field swaps, ...):
//	   whatever the parser accepts must yield a signer whose signatures verify under its
//	   public key, and that public key must be the one stored in the file.
package main

import (
	"bytes"
	"context"
	"crypto/ecdsa"
	"crypto/ed25519"
	"crypto/elliptic"
	"crypto/rand"
	"crypto/rsa"
	"crypto/x509"
	"encoding/base64"
	"encoding/pem"
	"errors"
	"fmt"
	"math/big"
	"os"
	"os/exec"
	"path/filepath"
	"strings"
	"sync"
	"time"

	"golang.org/x/crypto/ssh"
	"verif/checks/c39/detkeys"
	kv "verif/ref/sshkeyv1"
	sr "verif/ref/sshsigref"
	"verif/vf"
)

func main() { vf.Main("C39", vf.FaultEnumeration, run) }

type tkey struct {
	name string
	k    *kv.Key // reference / standard library form
	alt  *kv.Key // a second key of the same type
	// class marks a boundary value-class key (detkeys.Classes): same treatment, lighter
	// repetition in the quick tier
	class bool
}

// raw is the value handed to ssh.MarshalPrivateKey.
func raw(k *kv.Key) any {
	switch k.Type {
	case sr.RSA:
		return k.RSA
	case sr.ED25519:
		return k.Ed25519
	default:
		return k.ECDSA
	}
}

func rsaKey(bits int, label string) *kv.Key {
	return &kv.Key{Type: sr.RSA, RSA: detkeys.RSA(bits, label)}
}
func ecKey(c elliptic.Curve, label string) *kv.Key {
	k := detkeys.ECDSA(c, label)
	return &kv.Key{Type: sr.FromECDSA(&k.PublicKey).Type, ECDSA: k}
}
func edKey(label string) *kv.Key { return &kv.Key{Type: sr.ED25519, Ed25519: detkeys.Ed25519(label)} }

// sameKey compares what the package parsed with the expected key, component by component.
func sameKey(got any, want *kv.Key) error {
	switch g := got.(type) {
	case *rsa.PrivateKey:
		if want.Type != sr.RSA {
			return fmt.Errorf("parsed an RSA key, expected %s", want.Type)
		}
		w := want.RSA
		if g.N.Cmp(w.N) != 0 || g.E != w.E || g.D.Cmp(w.D) != 0 || len(g.Primes) != 2 || g.Primes[0].Cmp(w.Primes[0]) != 0 || g.Primes[1].Cmp(w.Primes[1]) != 0 {
			return errors.New("RSA components differ")
		}
	case *ecdsa.PrivateKey:
		if want.ECDSA == nil {
			return fmt.Errorf("parsed an ECDSA key, expected %s", want.Type)
		}
		w := want.ECDSA
		if g.Curve != w.Curve || g.X.Cmp(w.X) != 0 || g.Y.Cmp(w.Y) != 0 || g.D.Cmp(w.D) != 0 {
			return errors.New("ECDSA components differ")
		}
	case *ed25519.PrivateKey:
		if want.Type != sr.ED25519 {
			return fmt.Errorf("parsed an Ed25519 key, expected %s", want.Type)
		}
		if !bytes.Equal(*g, want.Ed25519) {
			return errors.New("Ed25519 private key bytes differ")
		}
	default:
		return fmt.Errorf("unexpected key type %T", got)
	}
	return nil
}

// useKey is the operational consistency test of the property: a signer made from the
// parsed key signs, the signature verifies under signer.PublicKey() (real code and
// reference verifier), and that public key is the blob `outer` stored in the file.
// It returns which part failed ("" = consistent).
func useKey(key any, outer []byte, msg []byte) (failure, detail string) {
	var signer ssh.Signer
	var err error
	if p, v, _ := vf.Protect(func() { signer, err = ssh.NewSignerFromKey(key) }); p {
		return "panic", fmt.Sprint("NewSignerFromKey panics: ", v)
	}
	if err != nil {
		return "cannot sign", "NewSignerFromKey: " + err.Error()
	}
	var sig *ssh.Signature
	if p, v, _ := vf.Protect(func() { sig, err = signer.Sign(rand.Reader, msg) }); p {
		return "panic", fmt.Sprint("Sign panics: ", v)
	}
	if err != nil {
		return "cannot sign", "Sign: " + err.Error()
	}
	pub := signer.PublicKey()
	if err := pub.Verify(msg, sig); err != nil {
		return "signatures do not verify under its public key", err.Error()
	}
	rk, err := sr.ParsePubKey(pub.Marshal())
	if err != nil {
		return "signatures do not verify under its public key", "reference cannot parse the signer's public key: " + err.Error()
	}
	if v, why := sr.Verify(rk, msg, sr.Sig{Format: sig.Format, Blob: sig.Blob, Rest: sig.Rest}, true); v != sr.Valid {
		return "signatures do not verify under its public key", "reference verifier: " + why
	}
	if !bytes.Equal(pub.Marshal(), outer) {
		return "public key differs from the one stored in the file", ""
	}
	return "", ""
}

// ---- ssh-keygen -----------------------------------------------------------------

type keygen struct {
	bin string
	dir string
}

func (g *keygen) ok() bool { return g != nil && g.bin != "" }

func (g *keygen) run(args ...string) (string, error) {
	ctx, cancel := context.WithTimeout(context.Background(), 60*time.Second)
	defer cancel()
	cmd := exec.CommandContext(ctx, g.bin, args...)
	cmd.Env = []string{"HOME=" + g.dir, "LC_ALL=C", "PATH=/usr/bin:/bin"}
	var out, errb bytes.Buffer
	cmd.Stdout, cmd.Stderr = &out, &errb
	err := cmd.Run()
	if err != nil {
		// only a regular non-zero exit is an answer of the oracle; a timeout or a failure
		// to start the process means the oracle is unavailable for this case
		if _, isExit := err.(*exec.ExitError); !isExit || ctx.Err() != nil {
			return out.String(), &oracleDown{err}
		}
		return out.String(), fmt.Errorf("%v: %s", err, strings.TrimSpace(errb.String()))
	}
	return out.String(), nil
}

// oracleDown marks an ssh-keygen invocation that gave no answer (timeout, cannot start).
type oracleDown struct{ err error }

func (o *oracleDown) Error() string { return "ssh-keygen gave no answer: " + o.err.Error() }

func isDown(c *vf.Ctx, err error) bool {
	var d *oracleDown
	if errors.As(err, &d) {
		c.Outcome("ssh-keygen gave no answer for a case (skipped)")
		return true
	}
	return false
}

func (g *keygen) write(name string, data []byte) string {
	p := filepath.Join(g.dir, name)
	if err := os.WriteFile(p, data, 0o600); err != nil {
		panic(err)
	}
	return p
}

// pubOf runs ssh-keygen -y and returns the blob and the comment it prints.
func (g *keygen) pubOf(path, pass string) (blob []byte, comment string, err error) {
	out, err := g.run("-y", "-P", pass, "-f", path)
	if err != nil {
		return nil, "", err
	}
	return parsePubLine(out)
}

func parsePubLine(line string) (blob []byte, comment string, err error) {
	line = strings.TrimRight(line, "\r\n")
	f := strings.SplitN(line, " ", 3)
	if len(f) < 2 {
		return nil, "", fmt.Errorf("unexpected public key line %q", line)
	}
	blob, err = base64.StdEncoding.DecodeString(f[1])
	if len(f) == 3 {
		comment = f[2]
	}
	return
}

// refDecode decodes an unencrypted file with the reference model.
func refDecode(pemText []byte) (*kv.File, *kv.Section, *kv.Key, error) {
	bin, err := kv.Dearmor(pemText)
	if err != nil {
		return nil, nil, nil, err
	}
	f, err := kv.ParseFile(bin)
	if err != nil {
		return nil, nil, nil, err
	}
	if f.Cipher != "none" {
		return f, nil, nil, nil
	}
	s, err := kv.ParseSection(f.Priv)
	if err != nil {
		return f, nil, nil, err
	}
	if err := kv.WellFormed(f, s); err != nil {
		return f, s, nil, err
	}
	if err := kv.Consistent(f, s); err != nil {
		return f, s, nil, err
	}
	k, err := kv.KeyOf(s)
	return f, s, k, err
}

func sameRefKey(a, b *kv.Key) bool {
	if a == nil || b == nil || a.Type != b.Type {
		return false
	}
	fa, fb := a.Fields(), b.Fields()
	for i := range fa {
		if !bytes.Equal(fa[i], fb[i]) {
			return false
		}
	}
	return true
}

func run(c *vf.Ctx) {
	c.Rule("keys = standard {rsa1024,rsa2048[,3072,4096],p256,p384,p521,ed25519} + 39 boundary value classes (per curve: X / Y / both one byte short, X / Y two bytes short, scalar with 1 / 2 leading zero bytes, scalar top bit set / clear; ed25519 seed with 1 / 4 / 32 zero bytes, public key starting 00 / 0000; rsa n and q without sign pad (1039 bit), d two bytes short, iqmp two bytes short, d and iqmp top bit set / clear); " +
		"A: grid key{all of the above; ed25519 also as pointer} x passphrase{none,'x',40 bytes} x comment{'',text, lengths 0..7 for every padding length}: " +
		"Marshal -> reference decode (byte-for-byte for unencrypted) -> ParseRaw*/Parse* equal key, signer, 4 wrong passphrases, missing passphrase, ssh-keygen -y/-p; " +
		"B: files of the reference encoder (unencrypted x every padding length; encrypted: cipher{aes256-ctr,aes256-cbc} x rounds{1,16[,2,3,64,2048]} x salt length x comment) and of ssh-keygen (type x {plain,'x',40 bytes,aes256-cbc,rounds 1,3[,64]}) parse to the reference-decoded key; " +
		"C2: every non-empty subset of the redundant copies of the key {outer blob, public field(s), ed25519 public half, seed/scalar/d,p,q,iqmp} replaced by a second key's values, unencrypted and aes256-ctr; " +
		"C: every single fault of a valid unencrypted file per key type (outer key, each private/public field replaced or swapped, scalar d+n/-d/0/n-d, check-ints, every padding byte x3, nkeys, trailing, lengths); " +
		"H (hardening): every key: ONE fresh key object written 3 times (comments of 3 padding classes, returned block overwritten in between, object unchanged), parsed from a private PEM copy (bytes untouched; copy overwritten before the key is used), the object returned by the parser written again twice (byte-for-byte = reference) and re-parsed; standard keys encrypted: passphrase and PEM buffers reused by the caller (untouched by Marshal/Parse, cleared after the call), wrong passphrase and missing passphrase BEFORE the right one on the same buffers, wrong after right; comments of 2^k+{-1,0,1} bytes for k in {8,12,16}[,20,22] x {ed25519,p256,rsa1024} unencrypted and 255..65537 encrypted, passphrases of 71/72/73/111/112/127/128/129/255/256/257/65536 bytes with the last byte significant (reference decrypts, passphrase minus last byte is wrong, ssh-keygen reads them); RSA key objects on which Precompute was never called; " +
		"non-trivial = distinct (part,key,variant) that reached the comparison; oracle = reference openssh-key-v1 model + sign/verify + stored public key")
	c.Assume("crypto/rsa, crypto/ecdsa, crypto/ed25519, math/big of the standard library are correct; ssh-keygen (when present) is OpenSSH 9.2")
	c.Assume("encrypted files are decrypted on the reference side with the bcrypt_pbkdf model verif/ref/bcryptpbkdfref (KAT-validated, and sshkeyv1 reproduces ssh-keygen-encrypted files byte for byte) and AES-CTR/CBC built on crypto/aes")
	c.Assume("DSA keys in openssh-key-v1 form and ciphers other than aes256-ctr/aes256-cbc are outside MarshalPrivateKey/ParseRawPrivateKey's documented support and only observed (must fail cleanly)")

	seed := fmt.Sprint(c.Seed)
	keys := []tkey{
		{"rsa1024", rsaKey(1024, seed+"a"), rsaKey(1024, seed+"b"), false},
		{"rsa2048", rsaKey(2048, seed+"a"), nil, false},
		{"p256", ecKey(elliptic.P256(), seed+"a"), ecKey(elliptic.P256(), seed+"b"), false},
		{"p384", ecKey(elliptic.P384(), seed+"a"), ecKey(elliptic.P384(), seed+"b"), false},
		{"p521", ecKey(elliptic.P521(), seed+"a"), ecKey(elliptic.P521(), seed+"b"), false},
		{"ed25519", edKey(seed + "a"), edKey(seed + "b"), false},
	}
	if c.Thorough {
		keys = append(keys, tkey{"rsa3072", rsaKey(3072, seed+"a"), nil, false}, tkey{"rsa4096", rsaKey(4096, seed+"a"), nil, false})
	}
	// boundary value classes: coordinates / scalars / seeds / public keys with leading zero
	// bytes, RSA components with and without the mpint sign-pad byte or shorter than usual
	altOf := map[string]*kv.Key{}
	for _, k := range keys {
		if k.alt != nil {
			altOf[k.k.Type] = k.alt
		}
	}
	classKeys := detkeys.Classes(seed)
	c.Set("value_class_keys", len(classKeys))
	for _, ck := range classKeys {
		var k *kv.Key
		switch {
		case ck.RSA != nil:
			k = &kv.Key{Type: sr.RSA, RSA: ck.RSA}
		case ck.ECDSA != nil:
			k = &kv.Key{Type: sr.FromECDSA(&ck.ECDSA.PublicKey).Type, ECDSA: ck.ECDSA}
		default:
			k = &kv.Key{Type: sr.ED25519, Ed25519: ck.Ed25519}
		}
		keys = append(keys, tkey{ck.Name, k, altOf[k.Type], true})
	}

	var g *keygen
	if bin, err := exec.LookPath("ssh-keygen"); err == nil && os.Getenv("VERIF_NO_SSH_KEYGEN") == "" {
		work := os.Getenv("VERIF_WORK")
		if work == "" {
			work = "/var/tmp/verif-work"
		}
		os.MkdirAll(work, 0o755)
		dir, err := os.MkdirTemp(work, "c39-keygen-")
		if err == nil {
			defer os.RemoveAll(dir)
			g = &keygen{bin: bin, dir: dir}
		}
	}
	if g.ok() {
		c.Set("external_oracle", "ssh-keygen present: "+g.bin)
	} else {
		c.Set("external_oracle", "absent")
	}

	t0 := time.Now()
	partA(c, keys, g)
	c.Set("seconds_part_A", time.Since(t0).Seconds())
	t0 = time.Now()
	partB(c, keys, g)
	c.Set("seconds_part_B", time.Since(t0).Seconds())
	t0 = time.Now()
	partC(c, keys, g)
	partC2(c, keys)
	c.Set("seconds_part_C", time.Since(t0).Seconds())
	t0 = time.Now()
	partH(c, keys, g)
	c.Set("seconds_part_H", time.Since(t0).Seconds())
}

// ---- part A -----------------------------------------------------------------------

type caseA struct {
	key     tkey
	pass    []byte
	pname   string
	comment string
	ptr     bool // pass *ed25519.PrivateKey instead of the value
}

func partA(c *vf.Ctx, keys []tkey, g *keygen) {
	pass40 := []byte(base64.StdEncoding.EncodeToString(c.Bytes("pass40", 0, 30))) // 40 printable bytes
	passes := []struct {
		n string
		p []byte
	}{{"none", nil}, {"x", []byte("x")}, {"40bytes", pass40}}
	var cases []caseA
	for _, k := range keys {
		for _, p := range passes {
			if k.class {
				// value-class keys: plain with three comments, 'x' with one comment (thorough: every
				// passphrase class with two comments); the padding sweep belongs to the standard keys
				switch {
				case p.n == "none":
					for _, cm := range []string{"", "user@host with spaces", "12345"} {
						cases = append(cases, caseA{k, p.p, p.n, cm, false})
					}
				case p.n == "x" || c.Thorough:
					cases = append(cases, caseA{k, p.p, p.n, "user@host with spaces", false})
					if c.Thorough {
						cases = append(cases, caseA{k, p.p, p.n, "", false})
					}
				}
				continue
			}
			comments := []string{"", "user@host with spaces"}
			if p.p == nil || c.Thorough {
				comments = append(comments, "h\u00e9llo w\u00f6rld \u2713 \"quoted\"")
			}
			if p.p == nil {
				// every padding length of the 8 byte block: comment lengths 0..7
				for n := 1; n <= 7; n++ {
					comments = append(comments, strings.Repeat("c", n))
				}
			} else if c.Thorough {
				for n := 1; n <= 15; n++ {
					comments = append(comments, strings.Repeat("c", n))
				}
			}
			for _, cm := range comments {
				cases = append(cases, caseA{k, p.p, p.n, cm, false})
			}
		}
		if k.k.Type == sr.ED25519 {
			cases = append(cases, caseA{k, nil, "none", "ptr", true}, caseA{k, []byte("x"), "x", "ptr", true})
		}
	}
	c.ParallelFor(len(cases), func(i int) { oneA(c, cases[i], g, i) })
}

func oneA(c *vf.Ctx, t caseA, g *keygen, idx int) {
	id := fmt.Sprintf("A/%s/%s/comment%d", t.key.name, t.pname, len(t.comment))
	det := func(extra any) map[string]any {
		return map[string]any{"key": t.key.name, "passphrase": t.pname, "comment": t.comment, "info": extra}
	}
	in := raw(t.key.k)
	if t.ptr {
		e := t.key.k.Ed25519
		in = &e
	}
	var blk *pem.Block
	var err error
	p, pv, _ := vf.Protect(func() {
		if t.pass == nil {
			blk, err = ssh.MarshalPrivateKey(in, t.comment)
		} else {
			blk, err = ssh.MarshalPrivateKeyWithPassphrase(in, t.comment, t.pass)
		}
	})
	c.Eval(1)
	if p {
		c.Violation("MarshalPrivateKey panics", det(fmt.Sprint(pv)))
		return
	}
	if err != nil {
		c.Violation("MarshalPrivateKey fails for a supported key", det(err.Error()))
		return
	}
	pemText := pem.EncodeToMemory(blk)
	wantPub := t.key.k.Public().Blob()

	// reference decode of what was written
	f, s, rk, rerr := refDecode(pemText)
	if f == nil || rerr != nil {
		c.Violation("written file is not a well-formed consistent openssh-key-v1 file", det(fmt.Sprint(rerr)))
		return
	}
	if blk.Type != "OPENSSH PRIVATE KEY" || len(blk.Headers) != 0 {
		c.Violation("written PEM block has wrong type or headers", det(blk.Type))
	}
	if len(f.PubBlobs) != 1 || !bytes.Equal(f.PubBlobs[0], wantPub) {
		c.Violation("written file: outer public key is not the key's public key", det(nil))
	}
	if t.pass == nil {
		if !sameRefKey(rk, t.key.k) || s.Comment != t.comment {
			c.Violation("written unencrypted file decodes to another key or comment", det(nil))
		} else if want := kv.Encode(t.key.k, t.comment, s.Check1); !bytes.Equal(want, blk.Bytes) {
			c.Violation("written unencrypted file differs from the reference encoding", det(map[string]string{"got": vf.Hex8(blk.Bytes), "want": vf.Hex8(want)}))
		}
	} else {
		r := &sr.Reader{B: f.KDFOpts}
		salt := r.Str()
		rounds := r.U32()
		if f.Cipher != "aes256-ctr" || f.KDF != "bcrypt" || !r.Done() || len(salt) == 0 || rounds == 0 || f.NKeys != 1 || len(f.Priv)%16 != 0 || len(f.Trailing) != 0 {
			c.Violation("written encrypted file: container fields not as PROTOCOL.key requires", det(map[string]any{"cipher": f.Cipher, "kdf": f.KDF, "rounds": rounds, "salt": len(salt), "privlen": len(f.Priv)}))
		} else if sec, err := kv.Decrypt(f, t.pass); err != nil {
			c.Violation("written encrypted file: reference cannot decrypt", det(err.Error()))
		} else if es, err := kv.ParseSection(sec); err != nil {
			c.Violation("written encrypted file: reference decryption (bcrypt_pbkdf model + AES-CTR) does not yield a private section", det(err.Error()))
		} else if err := kv.WellFormedEncrypted(f, es); err != nil {
			c.Violation("written encrypted file: not well-formed after reference decryption", det(err.Error()))
		} else if err := kv.Consistent(f, es); err != nil {
			c.Violation("written encrypted file: inconsistent after reference decryption", det(err.Error()))
		} else if ek, err := kv.KeyOf(es); err != nil || !sameRefKey(ek, t.key.k) || es.Comment != t.comment {
			c.Violation("written encrypted file decrypts (reference) to another key or comment", det(fmt.Sprint(err)))
		}
	}

	// parse back with the package
	msg := c.Bytes("msg", idx, 33)
	parseBack := func(label string, parse func() (any, error)) {
		var got any
		var err error
		if p, v, _ := vf.Protect(func() { got, err = parse() }); p {
			c.Violation(label+" panics on a file written by MarshalPrivateKey", det(fmt.Sprint(v)))
			return
		}
		c.Eval(1)
		if err != nil {
			c.Violation(label+" rejects a file written by MarshalPrivateKey", det(err.Error()))
			return
		}
		if sg, ok := got.(ssh.Signer); ok {
			if !bytes.Equal(sg.PublicKey().Marshal(), wantPub) {
				c.Violation(label+": signer has another public key", det(nil))
			}
			sig, err := sg.Sign(rand.Reader, msg)
			if err != nil || sg.PublicKey().Verify(msg, sig) != nil {
				c.Violation(label+": signer's signature does not verify", det(fmt.Sprint(err)))
			}
			return
		}
		if err := sameKey(got, t.key.k); err != nil {
			c.Violation(label+" returns a different key", det(err.Error()))
			return
		}
		if fail, d := useKey(got, wantPub, msg); fail != "" {
			c.Violation(label+": round-tripped key: "+fail, det(d))
		}
	}
	if t.pass == nil {
		parseBack("ParseRawPrivateKey", func() (any, error) { return ssh.ParseRawPrivateKey(pemText) })
		parseBack("ParsePrivateKey", func() (any, error) { return ssh.ParsePrivateKey(pemText) })
	} else {
		parseBack("ParseRawPrivateKeyWithPassphrase", func() (any, error) { return ssh.ParseRawPrivateKeyWithPassphrase(pemText, t.pass) })
		parseBack("ParsePrivateKeyWithPassphrase", func() (any, error) { return ssh.ParsePrivateKeyWithPassphrase(pemText, t.pass) })
		// missing passphrase
		for _, fn := range []func() (any, error){
			func() (any, error) { return ssh.ParseRawPrivateKey(pemText) },
			func() (any, error) { return ssh.ParsePrivateKey(pemText) },
		} {
			_, err := fn()
			c.Eval(1)
			var pm *ssh.PassphraseMissingError
			if !errors.As(err, &pm) {
				c.Violation("encrypted file without passphrase: error is not *PassphraseMissingError", det(fmt.Sprint(err)))
			} else if pm.PublicKey == nil || !bytes.Equal(pm.PublicKey.Marshal(), wantPub) {
				c.Violation("PassphraseMissingError.PublicKey is not the file's public key", det(nil))
			}
		}
		// wrong passphrases
		wrong := [][]byte{[]byte("y"), append(append([]byte{}, t.pass...), 'x'), append([]byte("x"), t.pass...), c.Bytes("wrongpass", idx, 40)}
		if len(t.pass) > 1 {
			wrong = append(wrong, t.pass[:len(t.pass)-1])
		}
		if t.key.class {
			wrong = wrong[:1]
		} else if !c.Thorough {
			wrong = append(wrong[:2], wrong[3:]...) // quick: drop one of the variants
		} else if len(t.comment) >= 2 && len(t.comment) <= 15 {
			wrong = wrong[:1] // padding-length sweep: one wrong passphrase is enough
		}
		for wi, w := range wrong {
			fns := []func() (any, error){func() (any, error) { return ssh.ParseRawPrivateKeyWithPassphrase(pemText, w) }}
			if wi == 0 || c.Thorough {
				fns = append(fns, func() (any, error) { return ssh.ParsePrivateKeyWithPassphrase(pemText, w) })
			}
			for _, fn := range fns {
				var err error
				var got any
				if p, v, _ := vf.Protect(func() { got, err = fn() }); p {
					c.Violation("wrong passphrase: parser panics", det(fmt.Sprint(v)))
					continue
				}
				c.Eval(1)
				if err != x509.IncorrectPasswordError {
					c.Violation("wrong passphrase does not yield x509.IncorrectPasswordError", det(map[string]any{"wrong": wi, "err": fmt.Sprint(err), "gotkey": got != nil}))
				}
			}
		}
		c.Outcome("wrong-passphrase->IncorrectPasswordError")
		// the empty passphrase is "no passphrase", not a wrong one: only observed
		_, err := ssh.ParseRawPrivateKeyWithPassphrase(pemText, nil)
		c.Outcome("empty passphrase on encrypted file -> " + fmt.Sprint(err))
	}

	// ssh-keygen reads the Go-written file (a process start costs ~0.25 s CPU in this image:
	// quick sends one comment per (key, passphrase class), thorough sends every case)
	if g.ok() && (c.Thorough || t.comment == "user@host with spaces" || t.ptr) {
		path := g.write(fmt.Sprintf("a%d", idx), pemText)
		blob, comment, err := g.pubOf(path, string(t.pass))
		c.Eval(1)
		if isDown(c, err) {
			os.Remove(path)
			return
		}
		if err != nil {
			c.Violation("ssh-keygen -y rejects a file written by MarshalPrivateKey", det(err.Error()))
		} else {
			if !bytes.Equal(blob, wantPub) {
				c.Violation("ssh-keygen -y prints another public key for a file written by MarshalPrivateKey", det(nil))
			}
			if comment != t.comment {
				c.Violation("ssh-keygen -y prints another comment for a file written by MarshalPrivateKey", det(comment))
			}
		}
		if t.pass != nil && !(t.key.class && !c.Thorough) {
			if c.Thorough || t.pname == "x" {
				if _, _, err := g.pubOf(path, "definitely wrong"); err == nil && !isDown(c, err) {
					c.Violation("ssh-keygen opens the encrypted file with a wrong passphrase", det(nil))
				}
			}
			// let OpenSSH decrypt it, then decode everything with the reference model
			if _, err := g.run("-p", "-P", string(t.pass), "-N", "", "-f", path); isDown(c, err) {
			} else if err != nil {
				c.Violation("ssh-keygen -p cannot decrypt a file written by MarshalPrivateKeyWithPassphrase", det(err.Error()))
			} else {
				plain, _ := os.ReadFile(path)
				_, s2, k2, err := refDecode(plain)
				c.Eval(1)
				if err != nil || !sameRefKey(k2, t.key.k) || s2.Comment != t.comment {
					c.Violation("file written by MarshalPrivateKeyWithPassphrase decrypts (ssh-keygen -p) to another key or comment", det(fmt.Sprint(err)))
				}
			}
		}
		os.Remove(path)
		c.Outcome("ssh-keygen accepts Go-written " + t.pname)
	}
	c.Nontrivial(id)
	if c.WantSample() && t.pass != nil {
		c.Sample(map[string]any{"part": "A", "key": t.key.name, "passphrase": t.pname, "comment": t.comment, "cipher": f.Cipher, "kdf": f.KDF, "file_bytes": len(blk.Bytes)})
	}
}

// ---- part B -----------------------------------------------------------------------

func goParseBoth(c *vf.Ctx, label string, det any, pemText, pass []byte, want *kv.Key, wantPub []byte, msg []byte) {
	var got any
	var err error
	p, v, _ := vf.Protect(func() {
		if pass == nil {
			got, err = ssh.ParseRawPrivateKey(pemText)
		} else {
			got, err = ssh.ParseRawPrivateKeyWithPassphrase(pemText, pass)
		}
	})
	c.Eval(1)
	switch {
	case p:
		c.Violation(label+": parser panics", map[string]any{"case": det, "panic": fmt.Sprint(v)})
		return
	case err != nil:
		c.Violation(label+": rejected", map[string]any{"case": det, "err": err.Error()})
		return
	}
	if err := sameKey(got, want); err != nil {
		c.Violation(label+": parsed to a different key", map[string]any{"case": det, "err": err.Error()})
		return
	}
	if fail, d := useKey(got, wantPub, msg); fail != "" {
		c.Violation(label+": "+fail, map[string]any{"case": det, "info": d})
	}
	var sg ssh.Signer
	if pass == nil {
		sg, err = ssh.ParsePrivateKey(pemText)
	} else {
		sg, err = ssh.ParsePrivateKeyWithPassphrase(pemText, pass)
	}
	if err != nil || !bytes.Equal(sg.PublicKey().Marshal(), wantPub) {
		c.Violation(label+": ParsePrivateKey* fails or has another public key", map[string]any{"case": det, "err": fmt.Sprint(err)})
	}
}

func partB(c *vf.Ctx, keys []tkey, g *keygen) {
	// B1: the reference encoder plays ssh-keygen (unencrypted files, 70 column armor, every pad length)
	type b1 struct {
		k  tkey
		cm string
	}
	var cs []b1
	for _, k := range keys {
		for n := 0; n <= 8; n++ {
			cs = append(cs, b1{k, strings.Repeat("k", n)})
		}
		cs = append(cs, b1{k, "a longer comment, with spaces and \"quotes\""})
	}
	c.ParallelFor(len(cs), func(i int) {
		t := cs[i]
		check := uint32(0x01020304 * (i + 1))
		bin := kv.Encode(t.k.k, t.cm, check)
		goParseBoth(c, "file from the reference encoder", map[string]any{"key": t.k.name, "comment": t.cm}, kv.Armor(bin), nil, t.k.k, t.k.k.Public().Blob(), c.Bytes("msgB", i, 20))
		c.Nontrivial(fmt.Sprintf("B1/%s/comment%d", t.k.name, len(t.cm)))
	})

	partB1enc(c, keys)
	if !g.ok() {
		return
	}
	// B2: files written by ssh-keygen itself
	type gen struct {
		name string
		args []string
		sup  bool // parser is expected to support it
	}
	gens := []gen{
		{"rsa1024", []string{"-t", "rsa", "-b", "1024"}, true},
		{"rsa2048", []string{"-t", "rsa", "-b", "2048"}, true},
		{"ecdsa256", []string{"-t", "ecdsa", "-b", "256"}, true},
		{"ecdsa384", []string{"-t", "ecdsa", "-b", "384"}, true},
		{"ecdsa521", []string{"-t", "ecdsa", "-b", "521"}, true},
		{"ed25519", []string{"-t", "ed25519"}, true},
		{"dsa", []string{"-t", "dsa"}, false},
	}
	if c.Thorough {
		gens = append(gens, gen{"rsa3072", []string{"-t", "rsa", "-b", "3072"}, true}, gen{"rsa4096", []string{"-t", "rsa", "-b", "4096"}, true})
	}
	type variant struct {
		name string
		pass string
		args []string
		sup  bool
	}
	pass40 := base64.StdEncoding.EncodeToString(c.Bytes("kgpass40", 0, 30))
	variants := []variant{
		{"plain", "", nil, true},
		{"pass-x", "x", nil, true},
		{"pass-40", pass40, nil, true},
		{"aes256-cbc", "cbc pass", []string{"-Z", "aes256-cbc"}, true},
		{"rounds1", "r1", []string{"-a", "1"}, true},
		{"rounds3", "r3", []string{"-a", "3"}, true},
		// ciphers the parser documents as unsupported: must fail cleanly (observed only)
		{"aes128-ctr", "p", []string{"-Z", "aes128-ctr"}, false},
		{"aes256-gcm", "p", []string{"-Z", "aes256-gcm@openssh.com"}, false},
		{"chacha20-poly1305", "p", []string{"-Z", "chacha20-poly1305@openssh.com"}, false},
	}
	if c.Thorough {
		variants = append(variants, variant{"rounds64", "r64", []string{"-a", "64"}, true}, variant{"aes256-ctr-explicit", "q", []string{"-Z", "aes256-ctr"}, true})
	}
	c.ParallelFor(len(gens), func(gi int) {
		gn := gens[gi]
		comment := "kg " + gn.name
		base := filepath.Join(g.dir, "kg-"+gn.name)
		if _, err := g.run(append([]string{"-q", "-N", "", "-C", comment, "-f", base}, gn.args...)...); err != nil {
			c.Outcome("ssh-keygen cannot generate " + gn.name)
			return
		}
		plain, _ := os.ReadFile(base)
		pubLine, _ := os.ReadFile(base + ".pub")
		pubBlob, _, err := parsePubLine(string(pubLine))
		_, s, want, rerr := refDecode(plain)
		if err != nil || rerr != nil || !bytes.Equal(want.Public().Blob(), pubBlob) || s.Comment != comment {
			// the model disagrees with OpenSSH: that is a defect of the MODEL, not of /repo
			c.Violation("harness: reference model cannot decode an ssh-keygen file", map[string]any{"key": gn.name, "err": fmt.Sprint(err, rerr)})
			return
		}
		for vi, v := range variants {
			if !c.Thorough && ((!gn.sup && v.name != "plain") || (!v.sup && gn.name != "ed25519")) {
				continue
			}
			// quick: cipher and round variants (independent of the key type) on two key types only
			if !c.Thorough && gn.name != "ed25519" && gn.name != "ecdsa384" && v.name != "plain" && v.name != "pass-40" {
				continue
			}
			id := fmt.Sprintf("B2/%s/%s", gn.name, v.name)
			path := fmt.Sprintf("%s-%d", base, vi)
			os.WriteFile(path, plain, 0o600)
			if v.pass != "" {
				if _, err := g.run(append([]string{"-q", "-p", "-P", "", "-N", v.pass, "-f", path}, v.args...)...); err != nil {
					c.Outcome("ssh-keygen -p failed for variant " + v.name)
					continue
				}
			}
			text, _ := os.ReadFile(path)
			os.Remove(path)
			var pass []byte
			if v.pass != "" {
				pass = []byte(v.pass)
			}
			det := map[string]any{"key": gn.name, "variant": v.name}
			if !gn.sup || !v.sup {
				var got any
				var err error
				p, pv, _ := vf.Protect(func() {
					if pass == nil {
						got, err = ssh.ParseRawPrivateKey(text)
					} else {
						got, err = ssh.ParseRawPrivateKeyWithPassphrase(text, pass)
					}
				})
				c.Eval(1)
				if p {
					c.Violation("parser panics on an ssh-keygen file of an unsupported kind", map[string]any{"case": det, "panic": fmt.Sprint(pv)})
				} else if err == nil {
					// accepted after all: then it must be the right key
					if gn.sup && sameKey(got, want) != nil {
						c.Violation("ssh-keygen file of an unsupported kind parsed to a different key", det)
					}
					c.Outcome("unsupported kind accepted: " + gn.name + "/" + v.name)
				} else {
					c.Outcome(fmt.Sprintf("unsupported kind %s/%s -> %v", map[bool]string{true: "(supported type)", false: gn.name}[gn.sup], v.name, err))
				}
				continue
			}
			goParseBoth(c, "file written by ssh-keygen", det, text, pass, want, pubBlob, c.Bytes("msgB2", gi*100+vi, 20))
			if pass != nil {
				_, err := ssh.ParseRawPrivateKeyWithPassphrase(text, []byte(v.pass+"?"))
				c.Eval(1)
				if err != x509.IncorrectPasswordError {
					c.Violation("wrong passphrase does not yield x509.IncorrectPasswordError", map[string]any{"case": det, "err": fmt.Sprint(err)})
				}
				_, err = ssh.ParseRawPrivateKey(text)
				var pm *ssh.PassphraseMissingError
				if !errors.As(err, &pm) || pm.PublicKey == nil || !bytes.Equal(pm.PublicKey.Marshal(), pubBlob) {
					c.Violation("encrypted ssh-keygen file without passphrase: no PassphraseMissingError carrying the public key", map[string]any{"case": det, "err": fmt.Sprint(err)})
				}
			}
			c.Nontrivial(id)
			c.Outcome("ssh-keygen-written " + v.name + " parsed to the same key")
		}
		os.Remove(base)
		os.Remove(base + ".pub")
	})
}

// partB1enc: passphrase protected files written by the reference model (bcrypt_pbkdf model +
// AES built on the block function), i.e. what ssh-keygen writes for -N pass [-Z aes256-cbc]
// [-a rounds]: cipher x rounds x salt length x comment (padding to 16) x key type.
func partB1enc(c *vf.Ctx, keys []tkey) {
	type cs struct {
		k       tkey
		cipher  string
		rounds  uint32
		saltLen int
		comment string
		pass    []byte
	}
	var cases []cs
	pass40 := []byte(base64.StdEncoding.EncodeToString(c.Bytes("refpass40", 0, 30)))
	for _, k := range keys {
		if k.k.Type == sr.RSA && k.name != "rsa1024" && !k.class && !c.Thorough {
			continue
		}
		for _, cipher := range []string{"aes256-ctr", "aes256-cbc"} {
			rounds := []uint32{1, 16}
			comments := []string{"", "12345"}
			salts := []int{16}
			if c.Thorough {
				rounds = []uint32{1, 2, 3, 16, 64}
				salts = []int{16, 1, 32}
				comments = nil
				for n := 0; n <= 15; n++ {
					comments = append(comments, strings.Repeat("e", n))
				}
			}
			for _, r := range rounds {
				if !c.Thorough && r == 16 && k.name != "ed25519" && k.name != "p256" && k.name != "rsa1024" {
					continue
				}
				if k.class && r != 1 {
					continue
				}
				for _, sl := range salts {
					for ci, cm := range comments {
						p := []byte("x")
						if ci%2 == 1 {
							p = pass40
						}
						// thorough: every salt length and padding length at 1 round (cheap), two comments otherwise
						if c.Thorough && r != 1 && (ci > 1 || sl != 16) {
							continue
						}
						cases = append(cases, cs{k, cipher, r, sl, cm, p})
					}
				}
			}
		}
	}
	if c.Thorough {
		// the largest round count the parser accepts by design
		cases = append(cases, cs{keys[len(keys)-1], "aes256-ctr", 2048, 16, "max rounds", []byte("x")})
		for _, k := range keys {
			if k.k.Type == sr.ED25519 {
				cases[len(cases)-1].k = k
			}
		}
	}
	if n := len(cases); c.Thorough && n > 1 {
		cases[0], cases[n-1] = cases[n-1], cases[0] // start the long case first
	}
	c.Set("reference_written_encrypted_files", len(cases))
	c.ParallelFor(len(cases), func(i int) {
		t := cases[i]
		det := map[string]any{"key": t.k.name, "cipher": t.cipher, "rounds": t.rounds, "salt_len": t.saltLen, "comment_len": len(t.comment), "passphrase_len": len(t.pass)}
		f, err := kv.NewEncryptedFile(t.k.k, t.comment, uint32(0xabcd0000+i), t.cipher, t.pass, c.Bytes("salt", i, t.saltLen), t.rounds)
		if err != nil {
			c.Violation("harness: reference cannot encrypt", map[string]any{"case": det, "err": err.Error()})
			return
		}
		text := kv.Armor(f.Bytes())
		wantPub := t.k.k.Public().Blob()
		if t.rounds > 1000 {
			// the most expensive accepted round count: one parse only
			got, err := ssh.ParseRawPrivateKeyWithPassphrase(text, t.pass)
			c.Eval(1)
			if err != nil {
				c.Violation("encrypted file from the reference encoder: rejected", map[string]any{"case": det, "err": err.Error()})
			} else if e := sameKey(got, t.k.k); e != nil {
				c.Violation("encrypted file from the reference encoder: parsed to a different key", map[string]any{"case": det, "err": e.Error()})
			}
			c.Nontrivial(fmt.Sprintf("B1enc/%s/%s/r%d", t.k.name, t.cipher, t.rounds))
			return
		}
		goParseBoth(c, "encrypted file from the reference encoder", det, text, t.pass, t.k.k, wantPub, c.Bytes("msgB1e", i, 20))
		wrongs := [][]byte{append(append([]byte{}, t.pass...), '!'), []byte("y")}
		if !c.Thorough {
			wrongs = wrongs[:1]
		}
		for _, w := range wrongs {
			_, err := ssh.ParseRawPrivateKeyWithPassphrase(text, w)
			c.Eval(1)
			if err != x509.IncorrectPasswordError {
				c.Violation("wrong passphrase does not yield x509.IncorrectPasswordError", map[string]any{"case": det, "err": fmt.Sprint(err)})
			}
		}
		_, err = ssh.ParseRawPrivateKey(text)
		var pm *ssh.PassphraseMissingError
		if !errors.As(err, &pm) || pm.PublicKey == nil || !bytes.Equal(pm.PublicKey.Marshal(), wantPub) {
			c.Violation("encrypted file without passphrase: no PassphraseMissingError carrying the public key", map[string]any{"case": det, "err": fmt.Sprint(err)})
		}
		c.Nontrivial(fmt.Sprintf("B1enc/%s/%s/r%d/s%d/c%d", t.k.name, t.cipher, t.rounds, t.saltLen, len(t.comment)))
		if c.WantSample() && t.cipher == "aes256-cbc" {
			c.Sample(map[string]any{"part": "B (reference-written, encrypted)", "key": t.k.name, "cipher": t.cipher, "rounds": t.rounds, "comment_len": len(t.comment)})
		}
	})
}

// ---- part C: single faults of a valid unencrypted file ---------------------------

type fault struct {
	name    string
	keepPad bool
	mut     func(f *kv.File, s *kv.Section)
}

func cloneFS(f *kv.File, s *kv.Section) (*kv.File, *kv.Section) {
	f2 := *f
	f2.PubBlobs = nil
	for _, p := range f.PubBlobs {
		f2.PubBlobs = append(f2.PubBlobs, append([]byte{}, p...))
	}
	f2.KDFOpts = append([]byte{}, f.KDFOpts...)
	s2 := *s
	s2.Fields = nil
	for _, x := range s.Fields {
		s2.Fields = append(s2.Fields, append([]byte{}, x...))
	}
	s2.Pad = append([]byte{}, s.Pad...)
	return &f2, &s2
}

func faultsFor(t tkey, other *kv.Key, padLen int) []fault {
	var fs []fault
	add := func(name string, mut func(f *kv.File, s *kv.Section)) { fs = append(fs, fault{name, false, mut}) }
	addPad := func(name string, mut func(f *kv.File, s *kv.Section)) { fs = append(fs, fault{name, true, mut}) }
	alt := t.alt
	altF := alt.Fields()
	own := t.k.Public().Blob()

	add("none", func(f *kv.File, s *kv.Section) {})
	// outer public key
	add("outer public key := another key of the same type", func(f *kv.File, s *kv.Section) { f.PubBlobs[0] = alt.Public().Blob() })
	add("outer public key := key of another type", func(f *kv.File, s *kv.Section) { f.PubBlobs[0] = other.Public().Blob() })
	add("outer public key + trailing byte", func(f *kv.File, s *kv.Section) { f.PubBlobs[0] = append(f.PubBlobs[0], 0) })
	add("outer public key truncated", func(f *kv.File, s *kv.Section) { f.PubBlobs[0] = own[:len(own)-1] })
	add("outer public key last byte changed", func(f *kv.File, s *kv.Section) { f.PubBlobs[0][len(own)-1] ^= 1 })
	add("outer public key empty", func(f *kv.File, s *kv.Section) { f.PubBlobs[0] = nil })
	// whole private section of another key under this key's outer blob
	add("private section := another key's (outer kept)", func(f *kv.File, s *kv.Section) { s.Fields = alt.Fields() })
	// check-ints
	add("check-int 2 low bit flipped", func(f *kv.File, s *kv.Section) { s.Check2 ^= 1 })
	add("check-int 1 high bit flipped", func(f *kv.File, s *kv.Section) { s.Check1 ^= 1 << 31 })
	// container
	add("number of keys 0", func(f *kv.File, s *kv.Section) { f.NKeys = 0; f.PubBlobs = nil })
	add("number of keys 2", func(f *kv.File, s *kv.Section) { f.NKeys = 2; f.PubBlobs = append(f.PubBlobs, alt.Public().Blob()) })
	add("byte after the private section", func(f *kv.File, s *kv.Section) { f.Trailing = []byte{0} })
	add("kdf options non-empty", func(f *kv.File, s *kv.Section) { f.KDFOpts = []byte{0} })
	add("key type name := another type", func(f *kv.File, s *kv.Section) { s.KeyType = other.Type })
	// padding: every byte, three ways; length changes
	for i := 0; i < padLen; i++ {
		i := i
		addPad(fmt.Sprintf("pad[%d]^=1", i), func(f *kv.File, s *kv.Section) { s.Pad[i] ^= 1 })
		addPad(fmt.Sprintf("pad[%d]=0", i), func(f *kv.File, s *kv.Section) { s.Pad[i] = 0 })
		addPad(fmt.Sprintf("pad[%d]+=1", i), func(f *kv.File, s *kv.Section) { s.Pad[i]++ })
	}
	addPad("pad extended by 8 continuing bytes", func(f *kv.File, s *kv.Section) {
		for j := 0; j < 8; j++ {
			s.Pad = append(s.Pad, byte(len(s.Pad)+1))
		}
	})
	addPad("pad extended by 1 continuing byte", func(f *kv.File, s *kv.Section) { s.Pad = append(s.Pad, byte(len(s.Pad)+1)) })
	if padLen > 0 {
		addPad("pad last byte dropped", func(f *kv.File, s *kv.Section) { s.Pad = s.Pad[:len(s.Pad)-1] })
	}

	mp := kv.MpintBody
	switch t.k.Type {
	case sr.RSA:
		names := []string{"n", "e", "d", "iqmp", "p", "q"}
		for i, nm := range names {
			i := i
			if nm == "e" {
				continue // both keys use 65537
			}
			add("rsa "+nm+" := another key's", func(f *kv.File, s *kv.Section) { s.Fields[i] = altF[i] })
		}
		for _, sw := range [][2]int{{2, 4}, {2, 5}, {4, 5}, {0, 2}, {0, 1}, {3, 4}} {
			sw := sw
			add("rsa "+names[sw[0]]+" <-> "+names[sw[1]], func(f *kv.File, s *kv.Section) { s.Fields[sw[0]], s.Fields[sw[1]] = s.Fields[sw[1]], s.Fields[sw[0]] })
		}
		for _, e := range []int64{1, 2, 3, 65539} {
			e := e
			add(fmt.Sprintf("rsa e := %d", e), func(f *kv.File, s *kv.Section) { s.Fields[1] = mp(big.NewInt(e)) })
		}
		k := t.k.RSA
		p1 := new(big.Int).Sub(k.Primes[0], big.NewInt(1))
		q1 := new(big.Int).Sub(k.Primes[1], big.NewInt(1))
		add("rsa d := d + (p-1)(q-1)", func(f *kv.File, s *kv.Section) { s.Fields[2] = mp(new(big.Int).Add(k.D, new(big.Int).Mul(p1, q1))) })
		add("rsa d := -d", func(f *kv.File, s *kv.Section) { s.Fields[2] = mp(new(big.Int).Neg(k.D)) })
		add("rsa d := 0", func(f *kv.File, s *kv.Section) { s.Fields[2] = nil })
		add("rsa d := d+1", func(f *kv.File, s *kv.Section) { s.Fields[2] = mp(new(big.Int).Add(k.D, big.NewInt(1))) })
		add("rsa iqmp := 1", func(f *kv.File, s *kv.Section) { s.Fields[3] = []byte{1} })
		add("rsa n := n+2", func(f *kv.File, s *kv.Section) { s.Fields[0] = mp(new(big.Int).Add(k.N, big.NewInt(2))) })
		add("rsa n with a redundant leading zero byte", func(f *kv.File, s *kv.Section) { s.Fields[0] = append([]byte{0}, s.Fields[0]...) })
		add("rsa p := 1, q := n", func(f *kv.File, s *kv.Section) { s.Fields[4] = []byte{1}; s.Fields[5] = s.Fields[0] })
	case sr.ED25519:
		apk := []byte(alt.Ed25519[32:])
		add("ed25519 public field := another key's", func(f *kv.File, s *kv.Section) { s.Fields[0] = apk })
		add("ed25519 public half of the private field := another key's", func(f *kv.File, s *kv.Section) { copy(s.Fields[1][32:], apk) })
		add("ed25519 public field and public half := another key's", func(f *kv.File, s *kv.Section) { s.Fields[0] = apk; copy(s.Fields[1][32:], apk) })
		add("ed25519 seed := another key's", func(f *kv.File, s *kv.Section) { copy(s.Fields[1][:32], alt.Ed25519[:32]) })
		add("ed25519 seed last byte changed", func(f *kv.File, s *kv.Section) { s.Fields[1][31] ^= 1 })
		add("ed25519 private field := another key's", func(f *kv.File, s *kv.Section) { s.Fields[1] = append([]byte{}, alt.Ed25519...) })
		add("ed25519 public field, public half and outer key := another key's (seed kept)", func(f *kv.File, s *kv.Section) {
			s.Fields[0] = apk
			copy(s.Fields[1][32:], apk)
			f.PubBlobs[0] = alt.Public().Blob()
		})
		for _, n := range []int{0, 32, 63, 65} {
			n := n
			add(fmt.Sprintf("ed25519 private field length %d", n), func(f *kv.File, s *kv.Section) {
				b := append(append([]byte{}, s.Fields[1]...), 0)
				s.Fields[1] = b[:n]
			})
		}
		for _, n := range []int{0, 31, 33} {
			n := n
			add(fmt.Sprintf("ed25519 public field length %d", n), func(f *kv.File, s *kv.Section) {
				b := append(append([]byte{}, s.Fields[0]...), 0)
				s.Fields[0] = b[:n]
			})
		}
	default: // ecdsa
		k := t.k.ECDSA
		n := k.Curve.Params().N
		add("ecdsa public point := another key's", func(f *kv.File, s *kv.Section) { s.Fields[1] = altF[1] })
		add("ecdsa private scalar := another key's", func(f *kv.File, s *kv.Section) { s.Fields[2] = altF[2] })
		add("ecdsa public point and outer key := another key's (scalar kept)", func(f *kv.File, s *kv.Section) { s.Fields[1] = altF[1]; f.PubBlobs[0] = alt.Public().Blob() })
		add("ecdsa scalar := d+n", func(f *kv.File, s *kv.Section) { s.Fields[2] = mp(new(big.Int).Add(k.D, n)) })
		add("ecdsa scalar := -d", func(f *kv.File, s *kv.Section) { s.Fields[2] = mp(new(big.Int).Neg(k.D)) })
		add("ecdsa scalar := 0", func(f *kv.File, s *kv.Section) { s.Fields[2] = nil })
		add("ecdsa scalar := n-d", func(f *kv.File, s *kv.Section) { s.Fields[2] = mp(new(big.Int).Sub(n, k.D)) })
		add("ecdsa scalar := d+1", func(f *kv.File, s *kv.Section) { s.Fields[2] = mp(new(big.Int).Add(k.D, big.NewInt(1))) })
		add("ecdsa scalar with a redundant leading zero byte", func(f *kv.File, s *kv.Section) { s.Fields[2] = append([]byte{0}, s.Fields[2]...) })
		add("ecdsa public point := -Q", func(f *kv.File, s *kv.Section) {
			neg := ecdsa.PublicKey{Curve: k.Curve, X: k.X, Y: new(big.Int).Sub(k.Curve.Params().P, k.Y)}
			s.Fields[1] = sr.Point(&neg)
		})
		add("ecdsa public point compressed", func(f *kv.File, s *kv.Section) {
			w := (k.Curve.Params().BitSize + 7) / 8
			s.Fields[1] = append([]byte{2 + byte(k.Y.Bit(0))}, s.Fields[1][1:1+w]...)
		})
		add("ecdsa public point := infinity", func(f *kv.File, s *kv.Section) { s.Fields[1] = []byte{0} })
		add("ecdsa public point last byte changed", func(f *kv.File, s *kv.Section) { s.Fields[1][len(s.Fields[1])-1] ^= 1 })
		for _, cn := range []string{"nistp256", "nistp384", "nistp521", "nistp255"} {
			cn := cn
			if cn == sr.CurveName(t.k.Type) {
				continue
			}
			add("ecdsa curve name := "+cn, func(f *kv.File, s *kv.Section) { s.Fields[0] = []byte(cn) })
		}
	}
	return fs
}

var (
	confMu sync.Mutex
	conf   = map[string]string{} // faulted files on which the parser and ssh-keygen decide differently (informational)
)

func partC(c *vf.Ctx, keys []tkey, g *keygen) {
	defer func() { c.Set("decisions_differing_from_ssh_keygen", conf) }()
	type caseC struct {
		t       tkey
		other   *kv.Key
		comment string
		ft      fault
	}
	var cases []caseC
	for _, t := range keys {
		if t.alt == nil {
			continue
		}
		other := keys[len(keys)-1].k // ed25519 ... but for ed25519 itself take p256
		for _, k := range keys {
			if k.k.Type == sr.ED25519 && t.k.Type != sr.ED25519 {
				other = k.k
			}
			if k.name == "p256" && t.k.Type == sr.ED25519 {
				other = k.k
			}
		}
		for cl := 0; cl <= 7; cl++ {
			if t.class && cl > 0 {
				break // value-class keys: the padding sweep of the standard keys is not repeated
			}
			comment := strings.Repeat("z", cl)
			_, s := kv.NewFile(t.k, comment, 1)
			for _, ft := range faultsFor(t, other, len(s.Pad)) {
				// key material faults once (comment length 0); padding faults for every padding length
				if cl > 0 && !ft.keepPad && ft.name != "none" {
					continue
				}
				cases = append(cases, caseC{t, other, comment, ft})
			}
		}
	}
	c.Set("fault_cases", len(cases))
	c.ParallelFor(len(cases), func(i int) {
		cs := cases[i]
		check := uint32(0xC0FFEE00 + i)
		f0, s0 := kv.NewFile(cs.t.k, cs.comment, check)
		f, s := cloneFS(f0, s0)
		cs.ft.mut(f, s)
		if !cs.ft.keepPad {
			s.Pad = nil
			s.Pad = kv.PadFor(len(s.Bytes()), 8)
		}
		f.Priv = s.Bytes()
		bin := f.Bytes()
		pemText := kv.Armor(bin)
		det := map[string]any{"key": cs.t.name, "fault": cs.ft.name, "comment_len": len(cs.comment), "file_hex": fmt.Sprintf("%x", bin)}
		if len(bin) > 700 {
			det["file_hex"] = vf.Hex8(bin)
			det["file_pem"] = string(pemText)
		}

		var got any
		var err error
		p, pv, _ := vf.Protect(func() { got, err = ssh.ParseRawPrivateKey(pemText) })
		c.Eval(1)
		if p {
			c.Violation("ParseRawPrivateKey panics on a faulted file", map[string]any{"case": det, "panic": fmt.Sprint(pv)})
			return
		}
		// ParsePrivateKey must decide the same way
		sg, err2 := ssh.ParsePrivateKey(pemText)
		fam := map[string]string{sr.RSA: "rsa", sr.ED25519: "ed25519"}[cs.t.k.Type]
		if fam == "" {
			fam = "ecdsa"
		}
		// reference view of the faulted file
		var refReason string
		if fp, e := kv.ParseFile(bin); e != nil {
			refReason = "malformed container"
		} else if sp, e := kv.ParseSection(fp.Priv); e != nil {
			refReason = "malformed private section"
		} else if e := kv.Consistent(fp, sp); e != nil {
			refReason = e.Error()
		} else if e := kv.WellFormed(fp, sp); e != nil {
			refReason = "consistent key, container rule broken: " + e.Error()
		}

		if cs.ft.name == "none" {
			if err != nil || err2 != nil {
				c.Violation("well-formed unencrypted file rejected", map[string]any{"case": det, "err": fmt.Sprint(err, err2)})
				return
			}
			if e := sameKey(got, cs.t.k); e != nil {
				c.Violation("well-formed unencrypted file parsed to a different key", map[string]any{"case": det, "err": e.Error()})
			}
		}
		verdict := "rejected"
		if err == nil {
			verdict = "accepted"
			if err2 != nil {
				// NewSignerFromKey refusing is a clean rejection at the Signer level; note it
				c.Outcome("ParseRawPrivateKey accepts, ParsePrivateKey rejects: " + fam + ": " + cs.ft.name)
			}
			fail, d := useKey(got, outer(f), c.Bytes("msgC", i, 24))
			if len(f.PubBlobs) == 0 {
				fail, d = "public key differs from the one stored in the file", "file stores no public key"
			}
			if fail != "" {
				det["info"] = d
				det["reference"] = refReason
				cls := ""
				switch fail {
				case "public key differs from the one stored in the file":
					cls = "accepts a file whose outer public key differs from the key in its private section; the returned key's public key is not the one stored in the file"
				case "panic":
					cls = "accepted key panics when used: " + fam + ": " + cs.ft.name
				default:
					why := strings.TrimPrefix(refReason, fam+": ")
					if why == "" {
						why = "(the reference finds the file consistent)"
					}
					cls = "accepts a key that is not internally consistent (" + fail + "): " + fam + ": " + why
				}
				c.Violation(cls, det)
				verdict = "accepted-inconsistent"
			} else if sg != nil && !bytes.Equal(sg.PublicKey().Marshal(), outer(f)) {
				c.Violation("ParsePrivateKey: signer public key differs from the one stored in the file", det)
			} else if refReason != "" {
				verdict = "accepted (usable key; reference notes: " + strings.SplitN(refReason, ":", 2)[0] + ")"
			}
		} else if sg != nil {
			c.Violation("ParsePrivateKey accepts what ParseRawPrivateKey rejects", det)
		}
		c.Outcome(verdict)
		if err == nil || cs.ft.name != "none" {
			c.Nontrivial(fmt.Sprintf("C/%s/%s/pad%d", cs.t.name, cs.ft.name, len(s0.Pad)))
		}
		if c.WantSample() && err != nil && strings.HasPrefix(cs.ft.name, "rsa d <->") {
			c.Sample(map[string]any{"part": "C", "key": cs.t.name, "fault": cs.ft.name, "go": err.Error(), "reference": refReason})
		}
		// OpenSSH's decision on the same bytes (trace conformance only, never deciding)
		if g.ok() && len(cs.comment) == 0 && c.Thorough && !cs.t.class {
			path := g.write(fmt.Sprintf("c%d", i), pemText)
			_, _, kerr := g.pubOf(path, "")
			os.Remove(path)
			if isDown(c, kerr) {
				return
			}
			a := map[bool]string{true: "accepts", false: "rejects"}
			c.Add(fmt.Sprintf("faulted files: go %s / ssh-keygen -y %s", a[err == nil], a[kerr == nil]), 1)
			if (err == nil) != (kerr == nil) {
				confMu.Lock()
				conf[fam+": "+cs.ft.name] = fmt.Sprintf("go %s, ssh-keygen -y %s", a[err == nil], a[kerr == nil])
				confMu.Unlock()
			}
		}
	})
}

// outer is the (first) public key blob stored in the container, nil if there is none.
func outer(f *kv.File) []byte {
	if len(f.PubBlobs) == 0 {
		return nil
	}
	return f.PubBlobs[0]
}

// ---- part C2: every subset of the redundant copies replaced by another key's values ----
//
// A file states the key several times: the outer public key blob, the public fields of
// the private section (ed25519: public field AND public half of the 64 byte private field;
// ecdsa: point; rsa: modulus) and the private value itself (seed; scalar; d, p, q, iqmp).
// Part C replaces one copy at a time; a parser that compares the copies pairwise but with
// a wrong connective (accept if ANY pair agrees) only shows with two or more copies
// replaced together. Here EVERY non-empty subset of the copies is replaced, consistently,
// by the values of a second key B of the same type, in an unencrypted file and in a
// passphrase protected one (aes256-ctr, reference-encrypted). Oracle as in part C.

type copyPart struct {
	name string
	set  func(f *kv.File, s *kv.Section, b *kv.Key, bf [][]byte)
}

func copyParts(keyType string) []copyPart {
	outerPart := copyPart{"outer public key", func(f *kv.File, s *kv.Section, b *kv.Key, bf [][]byte) { f.PubBlobs[0] = b.Public().Blob() }}
	field := func(name string, i int) copyPart {
		return copyPart{name, func(f *kv.File, s *kv.Section, b *kv.Key, bf [][]byte) { s.Fields[i] = append([]byte{}, bf[i]...) }}
	}
	switch keyType {
	case sr.ED25519:
		return []copyPart{outerPart, field("public field", 0),
			{"public half of the private field", func(f *kv.File, s *kv.Section, b *kv.Key, bf [][]byte) { copy(s.Fields[1][32:], b.Ed25519[32:]) }},
			{"seed", func(f *kv.File, s *kv.Section, b *kv.Key, bf [][]byte) { copy(s.Fields[1][:32], b.Ed25519[:32]) }}}
	case sr.RSA:
		return []copyPart{outerPart, field("n", 0), field("d", 2), field("iqmp", 3), field("p", 4), field("q", 5)}
	default:
		return []copyPart{outerPart, field("public point", 1), field("private scalar", 2)}
	}
}

func partC2(c *vf.Ctx, keys []tkey) {
	type caseC2 struct {
		t    tkey
		mask int
		enc  bool
	}
	var cases []caseC2
	for _, t := range keys {
		if t.alt == nil {
			continue
		}
		n := len(copyParts(t.k.Type))
		for mask := 1; mask < 1<<n; mask++ {
			cases = append(cases, caseC2{t, mask, false}, caseC2{t, mask, true})
		}
	}
	c.Set("copy_subset_cases", len(cases))
	pass := []byte("c2 pass")
	c.ParallelFor(len(cases), func(i int) {
		cs := cases[i]
		parts := copyParts(cs.t.k.Type)
		block := 8
		if cs.enc {
			block = 16
		}
		f, _ := kv.NewFile(cs.t.k, "c2", uint32(0xC2C20000+i))
		s := kv.NewSection(cs.t.k, "c2", uint32(0xC2C20000+i), block)
		f, s = cloneFS(f, s)
		bf := cs.t.alt.Fields()
		var names []string
		for pi, p := range parts {
			if cs.mask&(1<<pi) != 0 {
				p.set(f, s, cs.t.alt, bf)
				names = append(names, p.name)
			}
		}
		all := cs.mask == 1<<len(parts)-1
		s.Pad = nil
		s.Pad = kv.PadFor(len(s.Bytes()), block)
		f.Priv = s.Bytes()
		plainView := *f // what the file says once decrypted (reference view)
		fileForm := "unencrypted"
		if cs.enc {
			fileForm = "aes256-ctr"
			ef, err := kv.EncryptedFileFromSection(f.PubBlobs[0], s.Bytes(), "aes256-ctr", pass, c.Bytes("saltC2", i, 16), 1)
			if err != nil {
				c.Violation("harness: reference cannot encrypt", err.Error())
				return
			}
			f = ef
		}
		bin := f.Bytes()
		pemText := kv.Armor(bin)
		replaced := strings.Join(names, " + ")
		det := map[string]any{"key": cs.t.name, "replaced_by_key_B": replaced, "file": fileForm, "file_pem": string(pemText)}
		if cs.enc {
			det["passphrase"] = string(pass)
		}
		var got any
		var err error
		p, pv, _ := vf.Protect(func() {
			if cs.enc {
				got, err = ssh.ParseRawPrivateKeyWithPassphrase(pemText, pass)
			} else {
				got, err = ssh.ParseRawPrivateKey(pemText)
			}
		})
		c.Eval(1)
		if p {
			det["panic"] = fmt.Sprint(pv)
			c.Violation("parser panics on a file with several copies of the key replaced", det)
			return
		}
		fam := map[string]string{sr.RSA: "rsa", sr.ED25519: "ed25519"}[cs.t.k.Type]
		if fam == "" {
			fam = "ecdsa"
		}
		refReason := ""
		if e := kv.Consistent(&plainView, s); e != nil {
			refReason = e.Error()
		}
		c.Nontrivial(fmt.Sprintf("C2/%s/%s/%s", cs.t.name, fileForm, replaced))
		if err != nil {
			if all {
				// every copy replaced: this IS key B's well-formed file
				det["err"] = err.Error()
				c.Violation("well-formed file rejected (all copies of the key replaced by another key's = that key's file)", det)
			}
			c.Outcome("copy subset: rejected")
			return
		}
		if all {
			if e := sameKey(got, cs.t.alt); e != nil {
				c.Violation("well-formed file parsed to a different key", det)
			}
		}
		fail, d := useKey(got, plainView.PubBlobs[0], c.Bytes("msgC2", i, 24))
		if fail == "" {
			if refReason != "" {
				c.Outcome("copy subset: accepted, usable key (reference notes an unused redundant field)")
			} else {
				c.Outcome("copy subset: accepted, consistent")
			}
			return
		}
		det["info"], det["reference"] = d, refReason
		cls := ""
		switch fail {
		case "public key differs from the one stored in the file":
			cls = "accepts a file whose outer public key differs from the key in its private section; the returned key's public key is not the one stored in the file"
		case "panic":
			cls = "accepted key panics when used: " + fam + ": copies replaced: " + replaced
		default:
			why := strings.TrimPrefix(refReason, fam+": ")
			if why == "" {
				why = "(the reference finds the file consistent)"
			}
			cls = "accepts a key that is not internally consistent (" + fail + "): " + fam + ": " + why
		}
		c.Violation(cls, det)
		c.Outcome("copy subset: accepted-inconsistent")
	})
}
