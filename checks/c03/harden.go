// Hardening dimension C of C03 (see MUTATIONS.md, "Hardening pass"): LONG calls.
//
// For nonce size {12, 24} (quick: one key class each, thorough: two), input lengths
// L = 2^k + {-1, 0, 1, 63, 64, 65} for k = 6..22 (4 MiB), and start counters
//
//	0, 1                         the stream from its beginning,
//	0xFE, 0xFFFE, 0xFFFFFE       (L <= 2^16+65) the counter's low byte / 16 bits / 24 bits carry inside the call,
//	2^32 - ceil(L/64) - 1        the call ends one block before the end of the stream,
//	2^32 - ceil(L/64)            the call ends in the last block (exactly at 2^38 when 64 | L),
//	2^32 - ceil(L/64) + 1        the call would need block 2^32: must panic, whatever was done before,
//
// every one of these short histories is run on a fresh Cipher (private, wiped key and nonce
// copies) against the position-based model:
//
//	one      XOR(L)
//	pre7     XOR(7) ; XOR(L)                      a buffered partial block in front of the long call
//	chunks   XOR(4093) x floor(L/4093) ; XOR(rest) chunk boundaries cross every 2^k point inside blocks
//	big      XOR(65537) x floor(L/65537) ; XOR(rest)
//	then100  XOR(L) ; XOR(100)                     the state left behind by the long call
//	seek     XOR(L) ; SetCounter(current+2) ; XOR(100)
//
// alternately with a separate poisoned dst and in place. Source and destination buffers are
// private and overwritten after each call.
package main

import (
	"bytes"
	"crypto/subtle"
	"fmt"

	"verif/ref/chacharef"
	"verif/vf"
)

type window struct {
	from uint64
	ks   []byte
}

type longCfg struct {
	name       string
	key, nonce []byte
	wins       []window
}

func (l *longCfg) at(pos uint64, n int) []byte {
	for _, w := range l.wins {
		if pos >= w.from && pos+uint64(n) <= w.from+uint64(len(w.ks)) {
			return w.ks[pos-w.from : pos-w.from+uint64(n)]
		}
	}
	ks, ok := chacharef.KeyStream(l.key, l.nonce, pos, n)
	if !ok {
		panic("harness: model asked for key stream beyond 2^32 blocks")
	}
	return ks
}

const longKMax = 22

var longOffsets = []int{-1, 0, 1, 63, 64, 65}

func longFamily(c *vf.Ctx) {
	maxL := 1<<longKMax + 65
	var cfgs []*longCfg
	for _, nl := range []int{12, 24} {
		for cl := 0; cl < 2; cl++ {
			// quick: the 12-byte nonce with the seeded key class, the 24-byte nonce with the ascending one
			if !c.Thorough && (nl == 12) != (cl == 1) {
				continue
			}
			l := &longCfg{name: fmt.Sprintf("nonce%d/class%d", nl, cl)}
			if cl == 0 {
				l.key, l.nonce = seq(0, 32), seq(0xA0, nl)
			} else {
				l.key, l.nonce = c.Bytes("c03-key", cl, 32), c.Bytes("c03-nonce", cl, nl)
			}
			cfgs = append(cfgs, l)
		}
	}
	// model key-stream windows: the beginning, the end, and the three carry points
	type wjob struct {
		l        *longCfg
		from     uint64
		n        int
		resIndex int
	}
	var jobs []wjob
	for _, l := range cfgs {
		l.wins = make([]window, 5)
		jobs = append(jobs,
			wjob{l, 0, maxL + 64 + 7 + 400, 0},
			wjob{l, streamEnd - uint64(maxL+64+64+7+400), maxL + 64 + 64 + 7 + 400, 1},
			wjob{l, 0xFE * 64, 1<<16 + 65 + 7 + 400, 2},
			wjob{l, 0xFFFE * 64, 1<<16 + 65 + 7 + 400, 3},
			wjob{l, 0xFFFFFE * 64, 1<<16 + 65 + 7 + 400, 4})
	}
	c.ParallelFor(len(jobs), func(i int) {
		j := jobs[i]
		ks, ok := chacharef.KeyStream(j.l.key, j.l.nonce, j.from, j.n)
		if !ok {
			panic("harness: model window beyond the stream")
		}
		j.l.wins[j.resIndex] = window{j.from, ks}
	})

	type unit struct {
		l     *longCfg
		k     int
		start int // index into the start kinds
	}
	startName := []string{"0", "1", "0xFE", "0xFFFE", "0xFFFFFE", "end-1", "end", "end+1"}
	var units []unit
	for k := longKMax; k >= 6; k-- {
		for _, l := range cfgs {
			for st := range startName {
				if st >= 2 && st <= 4 && k > 16 {
					continue
				}
				if !c.Thorough && k > 18 && (st == 1 || st == 5) {
					continue // quick, above 256 KiB: start counters 0, end, end+1
				}
				units = append(units, unit{l, k, st})
			}
		}
	}
	pattern := c.Bytes("c03-long-src", 0, maxL)
	poisonEE := bytes.Repeat([]byte{0xEE}, maxL)
	wipe := bytes.Repeat([]byte{0x5C}, maxL)
	hnames := []string{"one", "pre7", "chunks4093", "chunks65537", "then100", "seek"}
	c.ParallelFor(len(units), func(ui int) {
		u := units[ui]
		top := 1<<u.k + 65
		srcBuf, dstBuf, expBuf := pool.get(top), pool.get(top), pool.get(top)
		defer func() { pool.put(srcBuf); pool.put(dstBuf); pool.put(expBuf) }()
		trans, evals, traces := 0, 0, 0
		for _, d := range longOffsets {
			L := 1<<u.k + d
			blocks := uint64(L+63) / 64
			var start uint64
			switch u.start {
			case 0, 1:
				start = uint64(u.start)
			case 2:
				start = 0xFE
			case 3:
				start = 0xFFFE
			case 4:
				start = 0xFFFFFE
			case 5:
				start = 1<<32 - blocks - 1
			case 6:
				start = 1<<32 - blocks
			case 7:
				start = 1<<32 - blocks + 1
			}
			if start > 1<<32-1 {
				continue // a one-block call: there is no start counter from which it must panic
			}
			for hi, hn := range hnames {
				// the history as a list of steps: n >= 0 = XOR(n), n == -1 = SetCounter(current+2)
				if !c.Thorough && u.k > 18 && (hn == "chunks65537" || hn == "seek") {
					continue // quick, above 256 KiB: four of the six histories
				}
				var steps []int
				switch hn {
				case "one":
					steps = []int{L}
				case "pre7":
					steps = []int{7, L}
				case "chunks4093", "chunks65537":
					ch := 4093
					if hn == "chunks65537" {
						ch = 65537
					}
					if L <= ch {
						continue
					}
					for r := L; r > 0; r -= ch {
						steps = append(steps, min(ch, r))
					}
				case "then100":
					steps = []int{L, 100}
				case "seek":
					steps = []int{L, -1, 100}
				}
				label := fmt.Sprintf("long/%s/start=%s/L=%d/%s", u.l.name, startName[u.start], L, hn)
				ci, err := newCipher(u.l.key, u.l.nonce)
				if err != nil {
					c.Violation("NewUnauthenticatedCipher rejects a valid key/nonce", err.Error())
					return
				}
				pos := uint64(0)
				if start != 0 {
					if p, v, _ := vf.Protect(func() { ci.SetCounter(uint32(start)) }); p {
						c.Violation("SetCounter on a fresh Cipher panics", map[string]any{"case": label, "panic": fmt.Sprint(v)})
						continue
					}
					pos = start * 64
				}
				dead := false
				for si, n := range steps {
					if dead {
						break
					}
					trans++
					det := func() map[string]any {
						return map[string]any{"case": label, "step": si, "pos": pos, "n": n, "start_counter": start}
					}
					if n < 0 {
						cur := (pos + 63) / 64
						target := cur + 2
						if target > 1<<32-1 {
							break // no such uint32 counter from this state
						}
						if p, v, _ := vf.Protect(func() { ci.SetCounter(uint32(target)) }); p {
							d := det()
							d["panic"] = fmt.Sprint(v)
							c.Violation("SetCounter panics on a forward/equal counter", d)
							dead = true
							continue
						}
						pos = target * 64
						continue
					}
					inPlace := (hi+si)%2 == 1
					wantPanic := pos+uint64(n) > streamEnd
					copy(srcBuf, pattern[:n])
					dst := dstBuf[:n]
					if inPlace {
						dst = srcBuf[:n]
					} else {
						copy(dst, poisonEE)
					}
					p, v, _ := vf.Protect(func() { ci.XORKeyStream(dst, srcBuf[:n]) })
					evals++
					if p != wantPanic {
						d := det()
						if p {
							d["panic"] = fmt.Sprint(v)
							c.Violation("XORKeyStream panics although 2^32 blocks are not exceeded", d)
						} else {
							c.Violation("XORKeyStream does not panic although 2^32 blocks would be exceeded", d)
						}
						dead = true
						continue
					}
					if p {
						tally("XORKeyStream: overflow panic")
						dead = true
						continue
					}
					exp := expBuf[:n]
					subtle.XORBytes(exp, pattern[:n], u.l.at(pos, n))
					if !inPlace && !bytes.Equal(srcBuf[:n], pattern[:n]) {
						c.Violation("XORKeyStream modifies src", det())
					}
					if !bytes.Equal(dst, exp) {
						d := det()
						d["first_differing_byte"], d["in_place"] = firstDiff(dst, exp), inPlace
						if inPlace {
							c.Violation("XORKeyStream in place (dst == src) != src XOR RFC 8439 key stream at the absolute position", d)
						} else {
							c.Violation("XORKeyStream output != src XOR RFC 8439 key stream at the absolute position", d)
						}
						dead = true
						continue
					}
					// the buffers are the caller's again: overwrite them
					copy(srcBuf[:n], wipe)
					copy(dstBuf[:n], wipe)
					pos += uint64(n)
					if si == len(steps)-1 {
						switch {
						case pos == streamEnd:
							tally("XORKeyStream: ok, stream exhausted exactly")
						case pos%64 == 0:
							tally("XORKeyStream: ok, ends on a block boundary")
						default:
							tally("XORKeyStream: ok, ends inside a block")
						}
					}
				}
				traces++
				c.State(label)
				c.Nontrivial(label)
			}
		}
		c.Transition(trans)
		c.Eval(evals)
		c.TraceValidated(traces)
	})
	c.Set("long_family_units", len(units))
}

func firstDiff(a, b []byte) int {
	for i := range a {
		if i >= len(b) || a[i] != b[i] {
			return i
		}
	}
	return -1
}
