// C03: ChaCha20 keystream is the RFC 8439 block function, seekable and split-invariant.
//
// Sequence-mode exploration (BFS over operation histories, replay from scratch) of the
// real chacha20.Cipher in lock-step with a position-based model: the model state is the
// absolute byte position in the key stream; XORKeyStream(n) must output src XOR
// RFC-keystream[pos:pos+n] or panic exactly when pos+n would exceed 2^32 blocks;
// SetCounter(c) must panic exactly when c is below the number of blocks already (partly)
// consumed, else move the position to 64*c.
package main

import (
	"fmt"
	"strings"
	"sync/atomic"
	"time"

	"golang.org/x/crypto/chacha20"
	"verif/ref/chacharef"
	"verif/vf"
)

func main() { vf.Main("C03", vf.ModelChecking, run) }

const streamEnd = uint64(1) << 38 // 2^32 blocks of 64 bytes

type op struct {
	kind int // 0 XOR(n), 1 SetCounter(current+rel), 2 SetCounter(abs)
	n    int
	rel  int
	abs  uint32
}

func (o op) String() string {
	switch o.kind {
	case 0:
		return fmt.Sprintf("XOR(%d)", o.n)
	case 1:
		return fmt.Sprintf("SetCounter(cur%+d)", o.rel)
	}
	return fmt.Sprintf("SetCounter(%d)", o.abs)
}

// keystream windows of the model, cached per configuration
type ksCache struct {
	key, nonce []byte
	low        []byte // positions [0, len(low))
	highStart  uint64
	high       []byte // positions [highStart, 2^38)
}

func newCache(key, nonce []byte, lowBlocks, highBlocks int) *ksCache {
	k := &ksCache{key: key, nonce: nonce}
	k.low, _ = chacharef.KeyStream(key, nonce, 0, lowBlocks*64)
	k.highStart = streamEnd - uint64(highBlocks)*64
	k.high, _ = chacharef.KeyStream(key, nonce, k.highStart, highBlocks*64)
	return k
}

func (k *ksCache) at(pos uint64, n int) []byte {
	if pos+uint64(n) <= uint64(len(k.low)) {
		return k.low[pos : pos+uint64(n)]
	}
	if pos >= k.highStart && pos+uint64(n) <= streamEnd {
		return k.high[pos-k.highStart : pos-k.highStart+uint64(n)]
	}
	ks, ok := chacharef.KeyStream(k.key, k.nonce, pos, n)
	if !ok {
		panic("harness: model asked for key stream beyond 2^32 blocks")
	}
	return ks
}

func run(c *vf.Ctx) {
	depth, flat := 6, 3
	xors := []int{0, 1, 7, 31, 63, 64, 65, 127, 128, 129, 191, 255, 256, 300, 5000}
	if c.Thorough {
		depth, flat = 7, 4
	}
	var ops []op
	for _, n := range xors {
		ops = append(ops, op{kind: 0, n: n})
	}
	for _, r := range []int{-1, 0, 1, 4} {
		ops = append(ops, op{kind: 1, rel: r})
	}
	for d := uint32(5); d >= 1; d-- {
		ops = append(ops, op{kind: 2, abs: uint32(1<<32 - uint64(d))})
	}
	starts := []uint64{0, 1, 0x01020304, 1 << 31, 1<<32 - 6, 1<<32 - 5, 1<<32 - 4, 1<<32 - 3, 1<<32 - 2, 1<<32 - 1}
	c.Rule(fmt.Sprintf("BFS over all operation histories to depth %d with state merging (key = hook triple (counter,buffered,overflow) + precomputation flag + model position) and to depth %d without merging; "+
		"alphabet: XORKeyStream(n) n in %v, SetCounter(current-1|current|current+1|current+4), SetCounter(2^32-5..2^32-1); start counters {0,1,0x01020304,2^31,2^32-6..2^32-1} x nonce size {12,24} x 2 key classes; "+
		"every transition compares output bytes with the RFC 8439 block-function model at the absolute position, and panic/no-panic with the model's rollback and 2^32-block rules; "+
		"every history is run on TWO fresh Ciphers in lock-step (constructed from private key and nonce copies that are overwritten right after the constructor returned): one with a separate poisoned dst, one IN PLACE (dst == src); src must stay unmodified, and source/destination buffers are overwritten after every step; "+
		"plus the LONG family (no merging): nonce size {12,24} (quick: one key class each) x L = 2^k+{-1,0,1,63,64,65} for k=6..22 (4 MiB) x start counter {0, 1, 0xFE / 0xFFFE / 0xFFFFFE (L <= 2^16+65: low byte / 16 / 24 counter bits carry inside the call), 2^32-ceil(L/64)-1, 2^32-ceil(L/64) (ends in the last block), 2^32-ceil(L/64)+1 (must panic)} x history {XOR(L); XOR(7),XOR(L); L in chunks of 4093; L in chunks of 65537; XOR(L),XOR(100); XOR(L),SetCounter(current+2),XOR(100)} (quick above 2^18: start counters 0/end/end+1 and four of the histories), alternately separate dst and in place, same model; "+
		"non-trivial = distinct states at depth >= 2 / distinct long-family cases", depth, flat, xors))
	c.Assume("after a documented panic the Cipher is not used further (the property does not define its state)")
	c.Assume("on this platform the key-stream buffer is one block (generic implementation); the hook triple is read verbatim, so merged states have equal futures for a fixed key/nonce")
	c.Set("buf_size", chacha20.VerifC03BufSize)

	type cfg struct {
		nonceLen int
		start    uint64
		class    int
	}
	var cfgs []cfg
	for _, nl := range []int{12, 24} {
		for _, st := range starts {
			for cl := 0; cl < 2; cl++ {
				cfgs = append(cfgs, cfg{nl, st, cl})
			}
		}
	}
	src := c.Bytes("c03-src", 0, 5000)
	defer flushOutcomes(c)

	tl := time.Now()
	longFamily(c)
	c.Set("long_family_seconds", time.Since(tl).Seconds())

	for _, merged := range []bool{true, false} {
		for _, cf := range cfgs {
			if c.Expired() {
				return
			}
			// the unmerged pass and the second key class use a reduced set of start counters
			if (!merged || cf.class == 1) && !(cf.start == 0 || cf.start == 1<<32-2) {
				continue
			}
			var key, nonce []byte
			if cf.class == 0 {
				key, nonce = seq(0, 32), seq(0xA0, cf.nonceLen)
			} else {
				key, nonce = c.Bytes("c03-key", cf.class, 32), c.Bytes("c03-nonce", cf.class, cf.nonceLen)
			}
			cache := newCache(key, nonce, 5000/64*8+128, 16)
			label := fmt.Sprintf("nonce%d/start%d/class%d/%s", cf.nonceLen, cf.start, cf.class, map[bool]string{true: "merged", false: "flat"}[merged])
			var trans atomic.Int64
			d := depth
			if !merged {
				d = flat
			}
			spec := vf.SeqSpec[op]{
				Ops: ops, Depth: d, Parallel: true,
				Name: func(o op) string { return o.String() },
				Class: func(hist []op, mis string) string {
					cls, _, _ := strings.Cut(mis, " | ")
					return cls
				},
				Run: func(hist []op) (string, bool, string) {
					trans.Add(1)
					return runHistory(c, cache, cf.start, hist, src, merged)
				},
			}
			vf.ExploreSeq(c, label, spec)
			c.Set(label+"_transitions", trans.Load())
		}
	}
}

// outcome tallies: atomic counters, flushed once at the end (c.Outcome takes a global lock)
var outcomeNames = []string{"XORKeyStream: overflow panic", "XORKeyStream: empty input", "XORKeyStream: ok, stream exhausted exactly",
	"XORKeyStream: ok, ends on a block boundary", "XORKeyStream: ok, ends inside a block", "SetCounter: rollback panic", "SetCounter: same block count", "SetCounter: forward"}
var outcomeCount [8]atomic.Int64

func tally(name string) {
	for i, n := range outcomeNames {
		if n == name {
			outcomeCount[i].Add(1)
			return
		}
	}
	panic("harness: unknown outcome " + name)
}

func flushOutcomes(c *vf.Ctx) {
	m := map[string]int64{}
	for i, n := range outcomeNames {
		if k := outcomeCount[i].Load(); k > 0 {
			c.Outcome(n)
			m[n] = k
		}
	}
	c.Set("outcome_counts", m)
}

func seq(from, n int) []byte {
	b := make([]byte, n)
	for i := range b {
		b[i] = byte(from + i)
	}
	return b
}

// newCipher builds a Cipher from private copies of key and nonce and overwrites both copies as
// soon as the constructor has returned: the caller owns the slices it passed in.
func newCipher(key, nonce []byte) (*chacha20.Cipher, error) {
	k, n := append([]byte(nil), key...), append([]byte(nil), nonce...)
	ci, err := chacha20.NewUnauthenticatedCipher(k, n)
	for i := range k {
		k[i] ^= 0xFF
	}
	for i := range n {
		n[i] ^= 0xFF
	}
	return ci, err
}

// runHistory executes hist on two fresh Ciphers and on the model, in lock-step: object A gets a
// separate (poisoned) dst, object B works in place (dst == src, "overlap entirely"). Source and
// destination buffers are private to the call and are overwritten after every step.
func runHistory(c *vf.Ctx, ks *ksCache, start uint64, hist []op, src []byte, merged bool) (key string, stop bool, mismatch string) {
	ci, err := newCipher(ks.key, ks.nonce)
	if err != nil {
		return "", true, "NewUnauthenticatedCipher rejects a valid key/nonce | " + err.Error()
	}
	cb, err := newCipher(ks.key, ks.nonce)
	if err != nil {
		return "", true, "NewUnauthenticatedCipher rejects a valid key/nonce | " + err.Error()
	}
	// object C always gets a destination that is LONGER than the source (allowed: "dst must
	// be at least as long as src"); only the first len(src) bytes are output, and the stream
	// position afterwards must be the same as for the other two
	cc, err := newCipher(ks.key, ks.nonce)
	if err != nil {
		return "", true, "NewUnauthenticatedCipher rejects a valid key/nonce | " + err.Error()
	}
	dstC := make([]byte, 5000+41)
	srcC := make([]byte, 5000)
	pos := uint64(0)
	if start != 0 {
		// initial seek (not counted as an operation of the history)
		for _, x := range []*chacha20.Cipher{ci, cb, cc} {
			if p, v, _ := vf.Protect(func() { x.SetCounter(uint32(start)) }); p {
				return "", true, fmt.Sprintf("SetCounter on a fresh Cipher panics | start=%d panic=%v", start, v)
			}
		}
		pos = start * 64
	}
	dst := make([]byte, 5000)
	srcA := make([]byte, 5000)
	bufB := make([]byte, 5000)
	for i, o := range hist {
		cur := (pos + 63) / 64 // blocks already consumed, wholly or partly
		switch o.kind {
		case 0:
			wantPanic := pos+uint64(o.n) > streamEnd
			for j := range dst[:o.n] {
				dst[j] = 0xEE
			}
			copy(srcA, src[:o.n])
			copy(bufB, src[:o.n])
			p, v, _ := vf.Protect(func() { ci.XORKeyStream(dst[:o.n], srcA[:o.n]) })
			pb, vb, _ := vf.Protect(func() { cb.XORKeyStream(bufB[:o.n], bufB[:o.n]) })
			if p == wantPanic && pb != wantPanic {
				p, v = pb, vb
			}
			copy(srcC, src[:o.n])
			pc, vc, _ := vf.Protect(func() { cc.XORKeyStream(dstC[:o.n+41], srcC[:o.n]) })
			if p == wantPanic && pc != wantPanic {
				p, v = pc, vc
			}
			if p != wantPanic {
				if p {
					return "", true, fmt.Sprintf("XORKeyStream panics although 2^32 blocks are not exceeded | step %d pos=%d n=%d panic=%v", i, pos, o.n, v)
				}
				return "", true, fmt.Sprintf("XORKeyStream does not panic although 2^32 blocks would be exceeded | step %d pos=%d n=%d", i, pos, o.n)
			}
			if p {
				tally("XORKeyStream: overflow panic")
				return "dead:overflow-panic", true, ""
			}
			k := ks.at(pos, o.n)
			for j := 0; j < o.n; j++ {
				if dst[j] != src[j]^k[j] {
					return "", true, fmt.Sprintf("XORKeyStream output != src XOR RFC 8439 key stream at the absolute position | step %d pos=%d n=%d first differing byte %d", i, pos, o.n, j)
				}
				if bufB[j] != src[j]^k[j] {
					return "", true, fmt.Sprintf("XORKeyStream in place (dst == src) != src XOR RFC 8439 key stream at the absolute position | step %d pos=%d n=%d first differing byte %d", i, pos, o.n, j)
				}
				if dstC[j] != src[j]^k[j] {
					return "", true, fmt.Sprintf("XORKeyStream into a dst longer than src != src XOR RFC 8439 key stream at the absolute position (or the stream position was disturbed by an earlier such call) | step %d pos=%d n=%d first differing byte %d", i, pos, o.n, j)
				}
				if srcA[j] != src[j] {
					return "", true, fmt.Sprintf("XORKeyStream modifies src | step %d pos=%d n=%d byte %d", i, pos, o.n, j)
				}
			}
			// the buffers are the caller's again: overwrite them
			for j := 0; j < o.n; j++ {
				dst[j], srcA[j], bufB[j] = ^dst[j], ^srcA[j], ^bufB[j]
			}
			pos += uint64(o.n)
			if i == len(hist)-1 {
				switch {
				case o.n == 0:
					tally("XORKeyStream: empty input")
				case pos == streamEnd:
					tally("XORKeyStream: ok, stream exhausted exactly")
				case pos%64 == 0:
					tally("XORKeyStream: ok, ends on a block boundary")
				default:
					tally("XORKeyStream: ok, ends inside a block")
				}
			}
		default:
			var target uint64
			if o.kind == 1 {
				t := int64(cur) + int64(o.rel)
				if t < 0 || t > 1<<32-1 {
					return "inapplicable", true, "" // no such uint32 counter value from this state
				}
				target = uint64(t)
			} else {
				target = uint64(o.abs)
			}
			wantPanic := target < cur
			p, v, _ := vf.Protect(func() { ci.SetCounter(uint32(target)) })
			pb, vb, _ := vf.Protect(func() { cb.SetCounter(uint32(target)) })
			if p == wantPanic && pb != wantPanic {
				p, v = pb, vb
			}
			pc, vc, _ := vf.Protect(func() { cc.SetCounter(uint32(target)) })
			if p == wantPanic && pc != wantPanic {
				p, v = pc, vc
			}
			if p != wantPanic {
				if p {
					return "", true, fmt.Sprintf("SetCounter panics on a forward/equal counter | step %d pos=%d current=%d target=%d panic=%v", i, pos, cur, target, v)
				}
				return "", true, fmt.Sprintf("SetCounter accepts a rollback | step %d pos=%d current=%d target=%d", i, pos, cur, target)
			}
			if p {
				tally("SetCounter: rollback panic")
				return "dead:rollback-panic", true, ""
			}
			pos = target * 64
			if i == len(hist)-1 {
				if target == cur {
					tally("SetCounter: same block count")
				} else {
					tally("SetCounter: forward")
				}
			}
		}
	}
	if !merged {
		return "", false, ""
	}
	ctr, buffered, ov := ci.VerifC03State()
	return fmt.Sprintf("ctr=%d buf=%d ov=%v pre=%v pos=%d", ctr, buffered, ov, ci.VerifC03Precomp(), pos), false, ""
}
