// C33: server authentication limits and bindings are enforced.
//
// Same harness, seam and reference automaton as C32 (checks/c32/authx, ref/sshauthref),
// pointed at the counters and bindings: MaxAuthTries in {-1, 1, 2, 3, 6} (0 = default 6
// through NewServerConn, which does the defaulting) x all request histories up to a depth,
// long periodic histories (every word of length <= 2 repeated to 140 requests) and exact
// boundary histories for the 128-request cap, user-name changes after partial success, a
// grid of source-address lists x client addresses x every callback that can return
// Permissions, and the rule that the last PublicKeyCallback invocation before a publickey
// success is for the authenticating user and key.
package main

import (
	"fmt"
	"net"
	"os"
	"runtime/debug"
	"strings"

	"verif/checks/c32/authx"
	ref "verif/ref/sshauthref"
	"verif/vf"
)

func main() {
	debug.SetGCPercent(400)
	vf.Main("C33", vf.ModelChecking, run)
}

var tries = []int{-1, 1, 2, 3, 6}

func tables() []*authx.Spec {
	base := []*authx.Spec{
		// failures through kbd, wrong credentials, rejected keys, unknown methods; PK_OK queries; successes
		{Name: "mixed", Sets: []authx.SetSpec{{Password: authx.Accept(), PublicKey: authx.Accept(), Kbd: authx.Reject()}}},
		{Name: "reject-all+none-callback-rejects", Sets: []authx.SetSpec{{Password: authx.Reject(), PublicKey: authx.Reject(), Kbd: authx.Reject()}},
			NoClientAuth: true, None: authx.Reject()},
		// partial successes never count as failures and cycle for ever: password <-> set1, publickey -> set2
		{Name: "partial-cycle", Sets: []authx.SetSpec{
			{Password: authx.Partial(1), PublicKey: authx.Partial(2), Kbd: authx.Reject()},
			{Password: authx.Partial(0), PublicKey: authx.Accept(), Kbd: authx.Partial(1)},
			{Password: authx.Accept(), Kbd: authx.Reject()},
		}},
		{Name: "noclientauth-callback-partial", Sets: []authx.SetSpec{{Password: authx.Reject()}, {Password: authx.Accept(), PublicKey: authx.Accept()}},
			NoClientAuth: true, None: authx.Partial(1)},
	}
	var out []*authx.Spec
	for _, b := range base {
		for _, n := range tries {
			s := b.Clone(fmt.Sprintf("%s max=%d", b.Name, n))
			s.MaxAuthTries = n
			out = append(out, s)
		}
	}
	return out
}

func run(c *vf.Ctx) {
	c.Rule("(1) every request history over the alphabet up to the stated depth x 4 callback tables x MaxAuthTries in {-1,1,2,3,6}; (2) every word of length <= 2 over the alphabet repeated to 140 requests x 3 tables x the same MaxAuthTries values, " +
		"plus boundary histories X^n Y with n in {125..130}; (3) source-address lists x client addresses x 7 ways a callback returns Permissions; (3b) source-address value from PublicKeyCallback {matching, non-matching, malformed, empty, absent} x VerifiedPublicKeyCallback {absent, same Permissions, fresh without option, fresh nil, fresh matching, fresh non-matching, rejects} x every history to depth 3 (thorough 4) over 12 publickey letters of both users (cache hits, evictions, user switches); (4) MaxAuthTries {0,1,2,3,6,-1} and source-address end to end through NewServerConn. " +
		"Each execution of the real serverAuthenticate is walked through the reference automaton; one transition = one request; a state = (table, MaxAuthTries, callback set, partial flag, locked user, failures, requests, none seen, last PublicKeyCallback decision)")
	c.Assume("crypto/ed25519, crypto/rsa of the standard library (signature validity in the model); net/netip (source-address model)")
	c.Assume("MaxAuthTries = 0 is only exercised through NewServerConn, which turns it into 6; the scripted-transport hook passes the configuration to serverAuthenticate unchanged")

	fx := authx.NewFixture()
	alpha := fx.Alphabet()
	core, small := authx.Tier(alpha, 1), authx.Tier(alpha, 0)
	pre := fx.Prebuild(alpha)
	tbl := tables()

	fullDepth, coreDepth, smallDepth := 2, 3, 0
	if c.Thorough {
		fullDepth, coreDepth, smallDepth = 3, 4, 0
	}
	if d := os.Getenv("C33_DEPTH"); d != "" { // development aid
		fmt.Sscan(d, &fullDepth)
		coreDepth, smallDepth = 0, 0
	}
	c.Set("alphabet_full", len(alpha))
	c.Set("alphabet_26", len(core))
	c.Set("alphabet_20", len(small))
	c.Set("tables_x_max_auth_tries", len(tbl))
	c.Set("depth_full_alphabet", fullDepth)
	c.Set("depth_alphabet_26", coreDepth)
	c.Set("depth_alphabet_20", smallDepth)

	st := authx.NewStats()
	for _, t := range tbl {
		if c.Expired() {
			break
		}
		post := func(spec *authx.Spec, hist []authx.Item, r *authx.Run) {
			lastKeyRule(c, fx, spec, hist, r)
			srcRule(c, fx, spec, authx.DefaultRemote, hist, r)
		}
		authx.Explore(c, "C33", t, fx, alpha, pre, fullDepth, st, post)
		if coreDepth > 0 {
			authx.Explore(c, "C33", t, fx, core, pre, coreDepth, st, post)
		}
		if smallDepth > 0 {
			authx.Explore(c, "C33", t, fx, small, pre, smallDepth, st, post)
		}
	}
	st.Flush(c, "bounded")

	long := alpha
	if !c.Thorough {
		long = core
	}
	periodic(c, fx, long, pre, tbl)
	boundaries(c, fx, alpha, pre)
	sourceAddress(c, fx, alpha, pre)
	pubkeySourceAddress(c, fx, alpha, pre)
	endToEnd(c, fx, alpha)

	c.Sample(map[string]any{"table": "mixed max=2", "history": "none@alice ; pw-bad@alice ; kbd-ok@alice ; pw-ok@alice",
		"expected": "FAILURE (free) ; FAILURE ; INFO_REQUEST, DISCONNECT (second failure); the fourth request is never read"})
	c.Sample(map[string]any{"table": "partial-cycle max=-1", "history": "(pw-ok@alice) x 140",
		"expected": "128 x FAILURE(partial success), then DISCONNECT; request 129 is never read"})
}

func item(alpha []authx.Item, name string) authx.Item {
	for _, it := range alpha {
		if it.Name == name {
			return it
		}
	}
	panic("no letter " + name)
}

func packets(pre map[string][][]byte, hist []authx.Item) [][]byte {
	var pk [][]byte
	for _, it := range hist {
		pk = append(pk, pre[it.Name]...)
	}
	return pk
}

// lastKeyRule is the statement of C33 about PublicKeyCallback, checked directly on the
// log of a run that succeeded with publickey (the automaton implies it; this is the plain
// reading).
func lastKeyRule(c *vf.Ctx, fx *authx.Fixture, spec *authx.Spec, hist []authx.Item, r *authx.Run) {
	if r.Panic != "" || !r.Obs.Success || r.Obs.Consumed == 0 {
		return
	}
	q := ref.ParseRequest(r.Obs.Packets[r.Obs.Consumed-1], authx.SeamSID, authx.Allowed, fx.Resolver)
	if q.Method != ref.MPublicKey || !q.IsRequest {
		return
	}
	for i := len(r.Obs.Log) - 1; i >= 0; i-- {
		iv := r.Obs.Log[i]
		if iv.Kind != ref.CBPublicKey {
			continue
		}
		if iv.User != q.User || iv.Arg != q.KeyHex {
			c.Violation("the last PublicKeyCallback invocation before a publickey success is not for the user and key that authenticated",
				map[string]any{"config": spec.Name, "history": authx.Names(hist), "last_invocation": iv.String(), "authenticated_user": q.User})
		}
		c.Outcome("publickey-success:last-callback-matches")
		return
	}
	c.Violation("publickey success without any PublicKeyCallback invocation", map[string]any{"config": spec.Name, "history": authx.Names(hist)})
}

// periodic runs every word of length <= 2 repeated to 140 requests.
func periodic(c *vf.Ctx, fx *authx.Fixture, alpha []authx.Item, pre map[string][][]byte, tbl []*authx.Spec) {
	var words [][]authx.Item
	for _, a := range alpha {
		words = append(words, []authx.Item{a})
	}
	for _, a := range alpha {
		for _, b := range alpha {
			if a.Name != b.Name {
				words = append(words, []authx.Item{a, b})
			}
		}
	}
	var specs []*authx.Spec
	for _, t := range tbl {
		if !strings.HasPrefix(t.Name, "noclientauth") {
			specs = append(specs, t)
		}
	}
	st := authx.NewStats()
	type job struct {
		spec *authx.Spec
		w    int
	}
	var jobs []job
	for _, s := range specs {
		for w := range words {
			jobs = append(jobs, job{s, w})
		}
	}
	c.ParallelFor(len(jobs), func(i int) {
		j := jobs[i]
		var hist []authx.Item
		for len(hist) < 140 {
			hist = append(hist, words[j.w]...)
		}
		r := authx.RunSeam(j.spec, fx, packets(pre, hist))
		authx.Report(c, "C33", "seam, periodic history", j.spec, words[j.w], r)
		lastKeyRule(c, fx, j.spec, hist, r)
		l := authx.NewLocal()
		l.Add(j.spec.Name, &r.Report)
		st.Merge(l)
	})
	c.Set("periodic_words", len(words))
	st.Flush(c, "periodic")
}

// boundaries runs X^n Y around the 128-request cap.
func boundaries(c *vf.Ctx, fx *authx.Fixture, alpha []authx.Item, pre map[string][][]byte) {
	cycle := &authx.Spec{Name: "partial-cycle max=-1", MaxAuthTries: -1, Sets: []authx.SetSpec{
		{Password: authx.Partial(1), PublicKey: authx.Accept(), Kbd: authx.Accept()},
		{Password: authx.Partial(0), PublicKey: authx.Accept(), Kbd: authx.Accept()},
	}}
	mixed := &authx.Spec{Name: "mixed max=-1", MaxAuthTries: -1, NoClientAuth: false,
		Sets: []authx.SetSpec{{Password: authx.Accept(), PublicKey: authx.Accept(), Kbd: authx.Accept()}}}
	big := &authx.Spec{Name: "mixed max=200", MaxAuthTries: 200,
		Sets: []authx.SetSpec{{Password: authx.Accept(), PublicKey: authx.Accept(), Kbd: authx.Accept()}}}
	type bc struct {
		spec *authx.Spec
		x, y string
	}
	cases := []bc{
		{mixed, "query-K1@alice", "signed-K1@alice"},
		{mixed, "query-K2@bob", "pw-ok@bob"},
		{mixed, "pw-bad@alice", "pw-ok@alice"},
		{mixed, "kbd-bad@alice", "kbd-ok@alice"},
		{mixed, "none@alice", "signed-K2@alice"},
		{mixed, "unknown-method@bob", "signed-K2@bob"},
		{cycle, "pw-ok@alice", "signed-K1@alice"},
		{cycle, "pw-ok@alice", "kbd-ok@alice"},
		{big, "pw-bad@alice", "pw-ok@alice"},
		{big, "signed-K1@bob", "signed-K2@bob"},
	}
	st := authx.NewStats()
	l := authx.NewLocal()
	for _, b := range cases {
		for n := 125; n <= 130; n++ {
			var hist []authx.Item
			for i := 0; i < n; i++ {
				hist = append(hist, item(alpha, b.x))
			}
			hist = append(hist, item(alpha, b.y))
			r := authx.RunSeam(b.spec, fx, packets(pre, hist))
			short := []authx.Item{{Name: fmt.Sprintf("(%s)^%d", b.x, n)}, item(alpha, b.y)}
			authx.Report(c, "C33", "seam, 128-request boundary", b.spec, short, r)
			lastKeyRule(c, fx, b.spec, hist, r)
			l.Add(b.spec.Name, &r.Report)
			// plain reading of the cap: success iff the accepting request is among the first 128
			if r.Panic == "" && r.Obs.Success != (n+1 <= 128) {
				c.Violation("128-request cap: a request beyond the 128th was processed, or one within was refused",
					map[string]any{"config": b.spec.Name, "history": authx.Names(short), "success": r.Obs.Success})
			}
			c.Outcome(fmt.Sprintf("cap-boundary:n+1=%d:success=%v", n+1, r.Obs.Success))
		}
	}
	st.Merge(l)
	st.Flush(c, "boundary")
}

func srcLists(c *vf.Ctx) []string {
	lists := []string{
		"192.0.2.7", "192.0.2.8", "192.0.2.0/24", "192.0.2.6/31", "192.0.2.8/31", "192.0.2.7/32", "192.0.2.6/32", "0.0.0.0/0", "192.0.0.0/14", "192.0.3.0/24",
		"198.51.100.1,192.0.2.7", "198.51.100.0/24,192.0.2.0/24", "198.51.100.0/24,203.0.113.0/24", "10.0.0.0/8,2001:db8::/64",
		"2001:db8::1", "2001:db8::2", "2001:db8::/64", "2001:db8::/127", "2001:db8:0:1::/64", "::/0", "::1/128",
		"", ",", "bogus", "192.0.2", "192.0.2.0/33", "192.0.2.7/", "/24", " 192.0.2.7", "192.0.2.7 ", "192.0.2.0/24/1", "2001:db8::/129", "198.51.100.1,", "example.org",
	}
	// seeded values: the /24, /20 and exact address of pseudo-random clients and of their neighbours
	for i, b := range c.ValueClasses("c33-remote-v4", 4, c.V()) {
		ip := net.IPv4(b[0]|1, b[1], b[2], b[3])
		if i%2 == 0 {
			lists = append(lists, ip.String(), fmt.Sprintf("%d.%d.%d.0/24", ip[12], ip[13], ip[14]), fmt.Sprintf("%d.%d.%d.0/24", ip[12], ip[13], ip[14]^1))
		}
	}
	return lists
}

func srcRemotes(c *vf.Ctx) []net.Addr {
	tcp := func(s string) net.Addr { return &net.TCPAddr{IP: net.ParseIP(s), Port: 50000} }
	rem := []net.Addr{tcp("192.0.2.7"), tcp("192.0.2.6"), tcp("192.0.2.8"), tcp("192.0.3.7"), tcp("198.51.100.1"), tcp("10.1.2.3"),
		tcp("2001:db8::1"), tcp("2001:db8::2"), tcp("2001:db8:0:1::1"), tcp("::1"),
		&net.TCPAddr{IP: net.IPv4(192, 0, 2, 7).To4(), Port: 1}, // 4-byte form of the address
		&net.UnixAddr{Name: "/tmp/sock", Net: "unix"}, &net.UDPAddr{IP: net.ParseIP("192.0.2.7"), Port: 9}, nil}
	for _, b := range c.ValueClasses("c33-remote-v4", 4, c.V()) {
		rem = append(rem, &net.TCPAddr{IP: net.IPv4(b[0]|1, b[1], b[2], b[3]), Port: 4})
	}
	for _, b := range c.ValueClasses("c33-remote-v6", 16, c.V()) {
		ip := append(net.IP{0x20, 0x01, 0x0d, 0xb8}, b[4:]...)
		rem = append(rem, &net.TCPAddr{IP: ip, Port: 6})
	}
	return rem
}

// sourceAddress: lists x remote addresses x the callbacks that can return Permissions.
func sourceAddress(c *vf.Ctx, fx *authx.Fixture, alpha []authx.Item, pre map[string][][]byte) {
	lists, remotes := srcLists(c), srcRemotes(c)
	type path struct {
		name string
		spec func(list string) *authx.Spec
		hist []string
	}
	paths := []path{
		{"PasswordCallback", func(l string) *authx.Spec {
			return &authx.Spec{Sets: []authx.SetSpec{{Password: authx.AcceptSrc(l)}}}
		}, []string{"pw-ok@alice"}},
		{"KeyboardInteractiveCallback", func(l string) *authx.Spec {
			return &authx.Spec{Sets: []authx.SetSpec{{Kbd: authx.AcceptSrc(l)}}}
		}, []string{"kbd-ok@bob"}},
		{"NoClientAuthCallback", func(l string) *authx.Spec {
			return &authx.Spec{Sets: []authx.SetSpec{{Password: authx.Reject()}}, NoClientAuth: true, None: authx.AcceptSrc(l)}
		}, []string{"none@alice"}},
		{"PublicKeyCallback", func(l string) *authx.Spec {
			return &authx.Spec{Sets: []authx.SetSpec{{PublicKey: authx.AcceptSrc(l)}}}
		}, []string{"query-K1@alice", "signed-K1@alice"}},
		{"PublicKeyCallback (signed only, VerifiedPublicKeyCallback replaces the Permissions)", func(l string) *authx.Spec {
			return &authx.Spec{Sets: []authx.SetSpec{{PublicKey: authx.AcceptSrc(l)}}, Verified: authx.Accept()}
		}, []string{"signed-KR@alice"}},
		{"VerifiedPublicKeyCallback", func(l string) *authx.Spec {
			return &authx.Spec{Sets: []authx.SetSpec{{PublicKey: authx.Accept()}}, Verified: authx.AcceptSrc(l)}
		}, []string{"signed-K2@bob"}},
		{"second factor after partial success", func(l string) *authx.Spec {
			return &authx.Spec{Sets: []authx.SetSpec{{Password: authx.Partial(1)}, {Kbd: authx.AcceptSrc(l)}}}
		}, []string{"pw-ok@alice", "kbd-ok@alice"}},
	}
	type job struct{ p, l, r int }
	var jobs []job
	for p := range paths {
		for l := range lists {
			for r := range remotes {
				jobs = append(jobs, job{p, l, r})
			}
		}
	}
	st := authx.NewStats()
	c.ParallelFor(len(jobs), func(i int) {
		j := jobs[i]
		list, remote := lists[j.l], remotes[j.r]
		verdict := ref.SourceAddressVerdict(remote, list)
		if verdict == ref.SrcAmbiguous {
			return // a matching entry next to a malformed one: implementations differ, not demanded
		}
		spec := paths[j.p].spec(list)
		spec.Name = fmt.Sprintf("source-address %q via %s, client %v", list, paths[j.p].name, remote)
		spec.MaxAuthTries = -1
		spec.Remote = remote
		if remote == nil {
			spec.Remote = authx.NoAddr
		}
		var hist []authx.Item
		for _, n := range paths[j.p].hist {
			hist = append(hist, item(alpha, n))
		}
		r := authx.RunSeam(spec, fx, packets(pre, hist))
		authx.Report(c, "C33", "seam, source-address grid", spec, hist, r)
		if r.Panic == "" && r.Obs.Success != (verdict == ref.SrcAllow) {
			what := "a client outside the source-address list was authenticated"
			if !r.Obs.Success {
				what = "a client inside the source-address list was refused"
			}
			c.Violation(fmt.Sprintf("source-address critical option returned by %s: %s", paths[j.p].name, what),
				map[string]any{"list": list, "client": fmt.Sprint(remote), "server_error": fmt.Sprint(r.Err)})
		}
		l := authx.NewLocal()
		l.Add("src|"+paths[j.p].name, &r.Report)
		st.Merge(l)
		c.Outcome(fmt.Sprintf("source-address:%s:allowed=%v", paths[j.p].name, verdict == ref.SrcAllow))
		if verdict == ref.SrcAllow {
			c.Nontrivial(fmt.Sprintf("src-allow|%s|%v", list, remote))
		}
	})
	c.Set("source_address_lists", len(lists))
	c.Set("source_address_clients", len(remotes))
	c.Set("source_address_paths", len(paths))
	st.Flush(c, "source_address")
}

// srcRule is the plain reading of "enforces a source-address critical option returned with
// any successful Permissions" for a run that succeeded: the Permissions returned must admit
// the client, and so must the Permissions the last PublicKeyCallback invocation returned
// when the success is a publickey one (they are "successful Permissions" too, whether or not
// VerifiedPublicKeyCallback replaces them and whether or not the decision came from the cache).
func srcRule(c *vf.Ctx, fx *authx.Fixture, spec *authx.Spec, remote net.Addr, hist []authx.Item, r *authx.Run) {
	if r.Panic != "" || !r.Obs.Success || r.Obs.Consumed == 0 {
		return
	}
	bad := func(what string, iv ref.Invocation) {
		c.Violation("source-address critical option returned by "+what+" is not enforced: a client outside the list was authenticated",
			map[string]any{"config": spec.Name, "history": authx.Names(hist), "client": fmt.Sprint(remote), "invocation": iv.String()})
	}
	log := r.Obs.Log
	for i := len(log) - 1; i >= 0; i-- { // the callback whose Permissions were returned
		if log[i].Out == ref.OutAccept && log[i].PermsOut == r.Obs.PermsID && r.Obs.PermsID != 0 {
			if log[i].HasSrc && ref.SourceAddressVerdict(remote, log[i].Src) != ref.SrcAllow {
				bad("the final successful callback ("+log[i].Kind.String()+")", log[i])
			}
			break
		}
	}
	q := ref.ParseRequest(r.Obs.Packets[r.Obs.Consumed-1], authx.SeamSID, authx.Allowed, fx.Resolver)
	if !q.IsRequest || q.Method != ref.MPublicKey {
		return
	}
	for i := len(log) - 1; i >= 0; i-- {
		if log[i].Kind == ref.CBPublicKey {
			if log[i].Out == ref.OutAccept && log[i].HasSrc && ref.SourceAddressVerdict(remote, log[i].Src) != ref.SrcAllow {
				bad("PublicKeyCallback for the authenticating key", log[i])
			}
			c.Outcome("publickey-success:source-address-of-PublicKeyCallback-checked")
			return
		}
	}
}

// pubkeySourceAddress enumerates the region where the source-address option comes from
// PublicKeyCallback and the decision may be served from the public key cache:
// source-address value {matching, not matching, malformed, empty, absent} x
// VerifiedPublicKeyCallback {absent, returns the same Permissions, fresh Permissions without
// the option, fresh with a matching option, fresh with a non-matching option, rejects} x every
// history up to depth 3 (4 in thorough) over the publickey letters of both users (queries and
// signed requests for two accepted keys, a key accepted for one user only, the RSA key, a
// rejected key: query->signed, signed->signed, query->query->signed, another key or another
// user in between, ...).
func pubkeySourceAddress(c *vf.Ctx, fx *authx.Fixture, alpha []authx.Item, pre map[string][][]byte) {
	str := func(s string) *string { return &s }
	srcs := []struct {
		name string
		v    *string
	}{{"match", str(authx.SrcMatchCIDR)}, {"nomatch", str(authx.SrcNoMatch)}, {"malformed", str(authx.SrcMalformed)}, {"empty", str(authx.SrcEmpty)}, {"absent", nil}}
	vers := []struct {
		name string
		o    *authx.Outcome
	}{
		{"absent", nil},
		{"same-perms", &authx.Outcome{Kind: ref.OutAccept, SamePerms: true}},
		{"fresh-no-option", authx.Accept()},
		{"fresh-nil", authx.AcceptNil()},
		{"fresh-matching", authx.AcceptSrc(authx.SrcMatchIP)},
		{"fresh-nonmatching", authx.AcceptSrc(authx.SrcNoMatch)},
		{"rejects", authx.Reject()},
	}
	var letters []authx.Item
	for _, n := range []string{"query-K1@alice", "signed-K1@alice", "query-K2@alice", "signed-K2@alice", "query-K2@bob", "signed-K2@bob",
		"query-K1@bob", "signed-K1@bob", "signed-KR@alice", "query-K3@alice", "signed-K1-badsig@alice", "pw-ok@alice"} {
		letters = append(letters, item(alpha, n))
	}
	depth := 3
	if c.Thorough {
		depth = 4
	}
	st := authx.NewStats()
	n := 0
	for _, sv := range srcs {
		for _, vv := range vers {
			if c.Expired() {
				break
			}
			pk := &authx.Outcome{Kind: ref.OutAccept, Src: sv.v}
			spec := &authx.Spec{Name: fmt.Sprintf("PublicKeyCallback source-address %s, VerifiedPublicKeyCallback %s", sv.name, vv.name),
				MaxAuthTries: -1, Sets: []authx.SetSpec{{PublicKey: pk}}, Verified: vv.o}
			n++
			post := func(sp *authx.Spec, hist []authx.Item, r *authx.Run) {
				lastKeyRule(c, fx, sp, hist, r)
				srcRule(c, fx, sp, authx.DefaultRemote, hist, r)
			}
			authx.Explore(c, "C33", spec, fx, letters, pre, depth, st, post)
		}
	}
	c.Set("pubkey_source_address_configs", n)
	c.Set("pubkey_source_address_letters", len(letters))
	c.Set("pubkey_source_address_depth", depth)
	st.Flush(c, "pubkey_source_address")
}

// endToEnd drives NewServerConn: MaxAuthTries including the default, the cap on failures
// with the free none, user change after partial success, source-address of the real
// connection's remote address.
func endToEnd(c *vf.Ctx, fx *authx.Fixture, alpha []authx.Item) {
	type job struct {
		spec *authx.Spec
		hist []authx.Item
	}
	var jobs []job
	rep := func(n int, names ...string) []authx.Item {
		var h []authx.Item
		for i := 0; i < n; i++ {
			for _, nm := range names {
				h = append(h, item(alpha, nm))
			}
		}
		return h
	}
	mixed := func(max int) *authx.Spec {
		return &authx.Spec{Name: fmt.Sprintf("mixed max=%d", max), MaxAuthTries: max,
			Sets: []authx.SetSpec{{Password: authx.Accept(), PublicKey: authx.Accept(), Kbd: authx.Reject()}}}
	}
	for _, max := range []int{0, 1, 2, 3, 6, -1} {
		for _, w := range [][]string{{"pw-bad@alice"}, {"none@alice"}, {"kbd-ok@alice"}, {"query-K1@alice", "pw-bad@alice"}, {"none@alice", "unknown-method@alice"},
			{"query-K3@bob"}, {"signed-K1@bob"}, {"query-K2@bob"}} {
			for _, tail := range []string{"pw-ok@alice", "signed-K2@bob"} {
				for _, n := range []int{0, 1, 2, 3, 5, 6, 7, 9} {
					if max > 0 && n > max+2 {
						continue
					}
					jobs = append(jobs, job{mixed(max), append(rep(n, w...), item(alpha, tail))})
				}
			}
		}
	}
	cyc := &authx.Spec{Name: "partial-cycle max=0", MaxAuthTries: 0, Sets: []authx.SetSpec{
		{Password: authx.Partial(1), PublicKey: authx.Partial(2), Kbd: authx.Reject()},
		{Password: authx.Partial(0), PublicKey: authx.Accept(), Kbd: authx.Partial(1)},
		{Password: authx.Accept(), Kbd: authx.Reject()},
	}}
	for _, h := range [][]string{
		{"pw-ok@alice", "signed-K2@bob"}, {"pw-ok@alice", "query-K2@bob", "signed-K2@alice"}, {"pw-ok@alice", "none@bob"}, {"pw-ok@alice", "pw-ok@bob"},
		{"signed-K2@bob", "pw-ok@alice"}, {"signed-K2@bob", "pw-ok@bob"}, {"pw-ok@alice", "pw-ok@alice", "pw-ok@alice", "signed-K1@alice"},
		{"pw-ok@alice", "none@alice", "none@alice", "kbd-ok@alice", "signed-K1@alice"},
	} {
		jobs = append(jobs, job{cyc, rep(1, h...)})
	}
	for _, l := range []string{"192.0.2.7", "192.0.2.0/24", "192.0.3.0/24", "", "bogus", "2001:db8::/32"} {
		for _, rm := range []net.Addr{authx.DefaultRemote, &net.TCPAddr{IP: net.ParseIP("2001:db8::9"), Port: 1}, &net.UnixAddr{Name: "x", Net: "unix"}} {
			s := &authx.Spec{Name: fmt.Sprintf("source-address %q client %v", l, rm), MaxAuthTries: 0, Remote: rm, NoClientAuth: true, None: authx.AcceptSrc(l),
				Sets: []authx.SetSpec{{Password: authx.AcceptSrc(l), PublicKey: authx.AcceptSrc(l), Kbd: authx.AcceptSrc(l)}}}
			for _, h := range [][]string{{"none@alice"}, {"pw-ok@alice"}, {"kbd-ok@alice"}, {"query-K1@alice", "signed-K1@alice"}} {
				jobs = append(jobs, job{s, rep(1, h...)})
			}
		}
	}
	for _, l := range []string{authx.SrcNoMatch, authx.SrcMatchCIDR, authx.SrcEmpty} {
		for vi, v := range []*authx.Outcome{nil, authx.Accept(), {Kind: ref.OutAccept, SamePerms: true}, authx.AcceptSrc(authx.SrcMatchIP)} {
			s := &authx.Spec{Name: fmt.Sprintf("PublicKeyCallback source-address %q, VerifiedPublicKeyCallback variant %d", l, vi), MaxAuthTries: 0,
				Sets: []authx.SetSpec{{PublicKey: authx.AcceptSrc(l)}}, Verified: v}
			for _, h := range [][]string{{"signed-K1@alice"}, {"query-K1@alice", "signed-K1@alice"}, {"signed-K1@alice", "signed-K1@alice"},
				{"query-K1@alice", "query-K1@alice", "signed-K1@alice"}, {"query-K1@alice", "query-K2@alice", "signed-K1@alice"},
				{"query-K2@alice", "signed-K2@bob", "signed-K2@alice"}, {"signed-K2@bob", "signed-K2@bob"}} {
				jobs = append(jobs, job{s, rep(1, h...)})
			}
		}
	}
	st := authx.NewStats()
	c.ParallelFor(len(jobs), func(i int) {
		j := jobs[i]
		r := authx.RunPipe(j.spec, fx, func(sid []byte) [][]byte { return authx.BuildAll(j.hist, sid) })
		authx.Report(c, "C33", "NewServerConn over an in-memory pipe", j.spec, j.hist, r)
		l := authx.NewLocal()
		l.Add("pipe|"+j.spec.Name, &r.Report)
		st.Merge(l)
	})
	c.Set("end_to_end_histories_through_NewServerConn", st.Runs)
	c.Set("end_to_end_terminal_counts", st.Terminal)
	c.TraceValidated(int(st.Runs))
	c.Transition(int(st.Steps))
	for k := range st.Tags {
		c.Outcome("e2e:" + k)
	}
}
