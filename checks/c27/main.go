// C27 (reduced claim): interoperability for every supported algorithm.
//
// For the complete algorithm lists of SupportedAlgorithms() and InsecureAlgorithms() the
// real Go client (NewClientConn) talks to the real Go server (NewServerConn) over an
// in-memory byte pipe with a passive wire tap: all kex x all host key algorithms (cipher
// fixed) and all ciphers x all MACs (kex fixed); password authentication, a session
// channel, payloads of 0, 1 and 200000 bytes each way, a forced re-key, the payloads again.
// Oracle 1: the bytes come back exactly. Oracle 2: the independent passive decoder
// /verif/ref/sshtapref recomputes, from the tap and the shared secret, the exchange hash,
// checks the host key signature, derives the six keys and decrypts and authenticates every
// packet of both directions. Oracle 3 (when /usr/bin/ssh exists): the OpenSSH client is
// run against the Go server on loopback TCP for every algorithm it supports, and the same
// passive decoder is applied to the OpenSSH-produced traffic.
package main

import (
	"bytes"
	"context"
	"crypto/rand"
	"errors"
	"fmt"
	"io"
	"math/big"
	"net"
	"os"
	"os/exec"
	"path/filepath"
	"sort"
	"strings"
	"sync"
	"sync/atomic"
	"time"

	"golang.org/x/crypto/ssh"

	"verif/checks/c29/hk"
	kx "verif/ref/sshkexref"
	"verif/ref/sshpkt"
	tap "verif/ref/sshtapref"
	"verif/ref/x25519ref"
	"verif/vf"
)

func main() { vf.Main("C27", vf.Exploration, run) }

// hangGuard only bounds a session in which neither party can make progress any more (for
// instance the cbc reader waiting for 256 KiB after a MAC failure): orders of magnitude
// above the seconds a session takes even on a heavily loaded machine.
const hangGuard = 5 * time.Minute

// ---------------------------------------------------------------------------------
// in-memory byte pipe with a tap

type stream struct {
	mu     sync.Mutex
	cond   *sync.Cond
	buf    []byte
	off    int
	closed bool
	log    []byte
}

func newStream() *stream { s := &stream{}; s.cond = sync.NewCond(&s.mu); return s }

func (s *stream) write(p []byte) (int, error) {
	s.mu.Lock()
	defer s.mu.Unlock()
	if s.closed {
		return 0, io.ErrClosedPipe
	}
	s.buf = append(s.buf, p...)
	s.log = append(s.log, p...)
	s.cond.Broadcast()
	return len(p), nil
}

func (s *stream) read(p []byte) (int, error) {
	s.mu.Lock()
	defer s.mu.Unlock()
	for s.off == len(s.buf) && !s.closed {
		s.cond.Wait()
	}
	if s.off == len(s.buf) {
		return 0, io.EOF
	}
	n := copy(p, s.buf[s.off:])
	s.off += n
	if s.off == len(s.buf) {
		s.buf, s.off = s.buf[:0], 0
	}
	return n, nil
}

func (s *stream) close() {
	s.mu.Lock()
	s.closed = true
	s.cond.Broadcast()
	s.mu.Unlock()
}

func (s *stream) bytes() []byte {
	s.mu.Lock()
	defer s.mu.Unlock()
	return append([]byte{}, s.log...)
}

type addr string

func (a addr) Network() string { return "mem" }
func (a addr) String() string  { return string(a) }

type pipeConn struct {
	r, w *stream
	name string
}

func (c *pipeConn) Read(p []byte) (int, error)       { return c.r.read(p) }
func (c *pipeConn) Write(p []byte) (int, error)      { return c.w.write(p) }
func (c *pipeConn) Close() error                     { c.w.close(); c.r.close(); return nil }
func (c *pipeConn) LocalAddr() net.Addr              { return addr(c.name) }
func (c *pipeConn) RemoteAddr() net.Addr             { return addr("peer-of-" + c.name) }
func (c *pipeConn) SetDeadline(time.Time) error      { return nil }
func (c *pipeConn) SetReadDeadline(time.Time) error  { return nil }
func (c *pipeConn) SetWriteDeadline(time.Time) error { return nil }

func memPipe() (client, server *pipeConn, c2s, s2c *stream) {
	c2s, s2c = newStream(), newStream()
	return &pipeConn{r: s2c, w: c2s, name: "client"}, &pipeConn{r: c2s, w: s2c, name: "server"}, c2s, s2c
}

// tcpTap records both directions of an accepted TCP connection.
type tcpTap struct {
	net.Conn
	mu       sync.Mutex
	c2s, s2c []byte
}

func (t *tcpTap) Read(p []byte) (int, error) {
	n, err := t.Conn.Read(p)
	t.mu.Lock()
	t.c2s = append(t.c2s, p[:n]...)
	t.mu.Unlock()
	return n, err
}

func (t *tcpTap) Write(p []byte) (int, error) {
	n, err := t.Conn.Write(p)
	t.mu.Lock()
	t.s2c = append(t.s2c, p[:n]...)
	t.mu.Unlock()
	return n, err
}

// recRand is a deterministic Config.Rand that remembers every read, so that the decoder
// can find the ephemeral secrets drawn from it.
type recRand struct {
	r     *vf.Rand
	mu    sync.Mutex
	reads [][]byte
}

func newRecRand(label string) *recRand { return &recRand{r: vf.NewRand(label)} }

func (r *recRand) Read(p []byte) (int, error) {
	r.mu.Lock()
	defer r.mu.Unlock()
	n, err := r.r.Read(p)
	if n >= 16 { // padding reads are shorter than any secret
		r.reads = append(r.reads, append([]byte{}, p[:n]...))
	}
	return n, err
}

func (r *recRand) snapshot() [][]byte {
	r.mu.Lock()
	defer r.mu.Unlock()
	return append([][]byte{}, r.reads...)
}

// ---------------------------------------------------------------------------------
// kex tap registry (hook VerifC27TapKex)

var (
	regMu   sync.Mutex
	regCond = sync.NewCond(&regMu)
	reg     = map[any][]ssh.VerifC27KexInfo{}
)

func onKex(info ssh.VerifC27KexInfo) {
	regMu.Lock()
	reg[info.Conn] = append(reg[info.Conn], info)
	regCond.Broadcast()
	regMu.Unlock()
}

func findConn(sessionID []byte, isServer bool) any {
	regMu.Lock()
	defer regMu.Unlock()
	for k, v := range reg {
		if len(v) > 0 && v[0].IsServer == isServer && v[0].Err == nil && bytes.Equal(v[0].H, sessionID) {
			return k
		}
	}
	return nil
}

func kexRecords(key any) []ssh.VerifC27KexInfo {
	regMu.Lock()
	defer regMu.Unlock()
	return append([]ssh.VerifC27KexInfo{}, reg[key]...)
}

func forget(key any) {
	if key == nil {
		return
	}
	regMu.Lock()
	delete(reg, key)
	regMu.Unlock()
	ssh.VerifC27Forget(key)
}

// waitKex blocks until n exchanges were reported for key; the hang guard gives up.
func waitKex(key any, n int) bool {
	expired := false
	t := time.AfterFunc(hangGuard, func() { regMu.Lock(); expired = true; regCond.Broadcast(); regMu.Unlock() })
	defer t.Stop()
	regMu.Lock()
	defer regMu.Unlock()
	for len(reg[key]) < n && !expired {
		regCond.Wait()
	}
	return len(reg[key]) >= n
}

// ---------------------------------------------------------------------------------

type env struct {
	c       *vf.Ctx
	keys    *hk.Set
	signers []ssh.Signer
	kex     []string
	algos   []string
	ciphers []string
	macs    []string
	sizes   []int
}

func (e *env) viol(class string, kv ...any) {
	d := map[string]any{}
	for i := 0; i+1 < len(kv); i += 2 {
		d[fmt.Sprint(kv[i])] = kv[i+1]
	}
	e.c.Violation(class, d)
}

type cfg struct {
	layer                  string
	kex, algo, cipher, mac string
	serverRekey            bool // Go<->Go: the server requests the re-key instead of the client
	secondRekey            bool // Go<->Go: a second forced re-key, requested by the OTHER party, and a third data phase
	clientLimit            bool // OpenSSH: the client is also given a RekeyLimit
}

func (c cfg) String() string {
	return fmt.Sprintf("kex=%s hostkey=%s cipher=%s mac=%s", c.kex, c.algo, c.cipher, c.mac)
}

const password = "correct horse battery staple"

func (e *env) serverConfig(r io.Reader, c *cfg, clientKey ssh.PublicKey) *ssh.ServerConfig {
	sc := &ssh.ServerConfig{
		PasswordCallback: func(conn ssh.ConnMetadata, pw []byte) (*ssh.Permissions, error) {
			if string(pw) == password {
				return nil, nil
			}
			return nil, errors.New("wrong password")
		},
	}
	if clientKey != nil {
		want := clientKey.Marshal()
		sc.PublicKeyCallback = func(conn ssh.ConnMetadata, key ssh.PublicKey) (*ssh.Permissions, error) {
			if bytes.Equal(key.Marshal(), want) {
				return nil, nil
			}
			return nil, errors.New("unknown key")
		}
	}
	sc.Rand = r
	sc.ServerVersion = "SSH-2.0-VerifGoServer_2.0 with a comment"
	if c != nil {
		sc.KeyExchanges, sc.Ciphers, sc.MACs = []string{c.kex}, []string{c.cipher}, []string{c.mac}
	} else {
		sc.KeyExchanges, sc.Ciphers, sc.MACs = e.kex, e.ciphers, e.macs
		// the Go server forces re-keys while the OpenSSH client transfers its 2 x 200000 bytes
		sc.RekeyThreshold = 120000
	}
	for _, s := range e.signers {
		sc.AddHostKey(s)
	}
	return sc
}

// serveSession echoes a session channel until the client's EOF, then reports exit status 0.
// In streaming mode (Go client) bytes are echoed as they arrive. In batch mode (OpenSSH
// client) everything is read first; if that crossed the server's RekeyThreshold the echo
// waits until the server side of the second key exchange has run, so that the echoed bytes
// are certain to travel under the new keys and the re-key is complete on the wire.
func serveSession(sc *ssh.ServerConn, ch ssh.Channel, reqs <-chan *ssh.Request, batch bool) {
	go func() {
		for r := range reqs {
			if r.WantReply {
				r.Reply(r.Type == "exec" || r.Type == "shell", nil)
			}
		}
	}()
	if batch {
		data, _ := io.ReadAll(ch)
		if len(data) > 150000 {
			if key := findConn(sc.SessionID(), true); key != nil {
				waitKex(key, 2)
			}
		}
		ch.Write(data)
	} else {
		io.Copy(ch, ch)
	}
	ch.SendRequest("exit-status", false, []byte{0, 0, 0, 0})
	ch.Close()
}

func serveConn(sc *ssh.ServerConn, chans <-chan ssh.NewChannel, reqs <-chan *ssh.Request, batch bool) {
	go ssh.DiscardRequests(reqs)
	for nc := range chans {
		if nc.ChannelType() != "session" {
			nc.Reject(ssh.UnknownChannelType, "only session")
			continue
		}
		ch, creqs, err := nc.Accept()
		if err != nil {
			continue
		}
		go serveSession(sc, ch, creqs, batch)
	}
}

// ---------------------------------------------------------------------------------
// shared secret recovery for the decoder

// randInt mimics how crypto/rand.Int turns one read into a candidate below max; it is only a
// search heuristic: a candidate is used only if it reproduces the public value on the wire.
func candidates(reads [][]byte, max *big.Int) []*big.Int {
	n := new(big.Int).Sub(max, big.NewInt(1))
	bl := n.BitLen()
	k := (bl + 7) / 8
	b := uint(bl % 8)
	if b == 0 {
		b = 8
	}
	var out []*big.Int
	for _, r := range reads {
		if len(r) != k {
			continue
		}
		q := append([]byte{}, r...)
		q[0] &= byte(int(1<<b) - 1)
		v := new(big.Int).SetBytes(q)
		if v.Cmp(max) < 0 {
			out = append(out, v)
		}
	}
	return out
}

type secretSource struct {
	cliReads, srvReads [][]byte
	hook               []ssh.VerifC27KexInfo // the records of one side, by exchange index
	how                map[int]string
	kErr               string
	memo               map[string]*big.Int
	used               map[string]bool
}

func (s *secretSource) secret(ex *tap.Exchange) (*big.Int, []byte, error) {
	var hookK []byte
	if ex.Index < len(s.hook) {
		hookK = s.hook[ex.Index].K
	}
	hookMag := func() (*big.Int, error) {
		if len(hookK) < 4 {
			return nil, errors.New("no K from the hook")
		}
		return new(big.Int).SetBytes(hookK[4:]), nil
	}
	fromHook := func() (*big.Int, []byte, error) {
		s.how[ex.Index] = "K taken through the hook"
		k, err := hookMag()
		return k, nil, err
	}
	check := func(k *big.Int) {
		// the implementation must have encoded the same K canonically
		if hookK != nil && !bytes.Equal(kx.Mpint(k), hookK) {
			s.kErr = fmt.Sprintf("exchange %d: implementation K %s, recomputed %s", ex.Index, vf.Hex8(hookK), vf.Hex8(kx.Mpint(k)))
		}
	}
	switch ex.Method.Kind {
	case kx.KindX25519:
		if len(ex.QC) != 32 || len(ex.QS) != 32 {
			return nil, nil, errors.New("X25519 value is not 32 bytes")
		}
		try := func(reads [][]byte, mine, theirs []byte) *big.Int {
			for _, r := range reads {
				if len(r) != 32 {
					continue
				}
				pub := x25519ref.X25519([32]byte(r), x25519ref.Base)
				if bytes.Equal(pub[:], mine) {
					sh := x25519ref.X25519([32]byte(r), [32]byte(theirs))
					return new(big.Int).SetBytes(sh[:])
				}
			}
			return nil
		}
		k := try(s.cliReads, ex.QC, ex.QS)
		if k == nil {
			k = try(s.srvReads, ex.QS, ex.QC)
		}
		if k == nil {
			return fromHook()
		}
		s.how[ex.Index] = "K recomputed from the Rand stream"
		check(k)
		return k, nil, nil
	case kx.KindDH, kx.KindGEX:
		// client: rand.Int(p-1) for the fixed groups, rand.Int(p/2) for group exchange; same for the server
		max := new(big.Int).Sub(ex.P, big.NewInt(1))
		if ex.Method.Kind == kx.KindGEX {
			max = new(big.Int).Rsh(ex.P, 1)
		}
		try := func(side string, reads [][]byte, mine, theirs *big.Int) *big.Int {
			for i, x := range candidates(reads, max) {
				// g^x is computed once per (read, group) and remembered across the exchanges of a connection
				key := fmt.Sprintf("%s|%d|%x|%s", side, i, ex.P.Bytes()[len(ex.P.Bytes())-16:], ex.G.String())
				if s.used[key] {
					continue
				}
				pub, ok := s.memo[key]
				if !ok {
					pub = new(big.Int).Exp(ex.G, x, ex.P)
					s.memo[key] = pub
				}
				if pub.Cmp(mine) == 0 {
					s.used[key] = true
					return new(big.Int).Exp(theirs, x, ex.P)
				}
			}
			return nil
		}
		k := try("c", s.cliReads, ex.E, ex.F)
		if k == nil {
			k = try("s", s.srvReads, ex.F, ex.E)
		}
		if k == nil {
			return fromHook()
		}
		s.how[ex.Index] = "K recomputed from the Rand stream"
		check(k)
		return k, nil, nil
	case kx.KindECDH:
		return fromHook()
	case kx.KindHybrid:
		s.how[ex.Index] = "K taken through the hook"
		if len(hookK) != 36 {
			return nil, nil, fmt.Errorf("hybrid K from the hook is not a 32-byte string: %x", hookK)
		}
		return nil, hookK[4:], nil
	}
	return nil, nil, errors.New("unknown method")
}

// ---------------------------------------------------------------------------------
// oracle 2: decode a tap and compare

type expect struct {
	cfg        cfg
	exchanges  int      // minimum number of key exchanges
	exactEx    bool     // exactly that many
	maxEx      int      // when not exact: at most this many
	c2s, s2c   [][]byte // expected channel data per epoch (index = epoch-1); nil = only totals
	totalC2S   []byte
	totalS2C   []byte
	hookClient []ssh.VerifC27KexInfo
	hookServer []ssh.VerifC27KexInfo
	who        string // "go-client" or "openssh-client"
	// exactEpochs > 0: only the first exactEpochs entries of c2s/s2c are compared epoch by
	// epoch; the rest is compared as one concatenation over the remaining epochs
	exactEpochs int
}

func isCBCEtM(c cfg) bool {
	cs, ok1 := sshpkt.LookupCipher(c.cipher)
	ms, ok2 := sshpkt.LookupMAC(c.mac)
	return ok1 && ok2 && cs.Kind == sshpkt.KindCBC && ms.ETM
}

const knownCBCEtM = "cbc cipher ignores EtM: with an -etm@openssh.com MAC the packets on the wire are encrypt-and-MAC framed (the specification-conformant decoder cannot authenticate them; they decode as the non-EtM MAC)"

func (e *env) decodeAndCheck(c2s, s2c []byte, cliReads, srvReads [][]byte, x expect) {
	c := e.c
	hook := x.hookClient
	if hook == nil {
		hook = x.hookServer
	}
	src := &secretSource{cliReads: cliReads, srvReads: srvReads, hook: hook, how: map[int]string{}, memo: map[string]*big.Int{}, used: map[string]bool{}}
	tag := x.who + ": "
	onEx := func(ex *tap.Exchange) {
		n := ex.Negotiated
		if n.Kex != x.cfg.kex || n.HostKey != x.cfg.algo || n.CipherCS != x.cfg.cipher || n.CipherSC != x.cfg.cipher ||
			(!sshpkt_AEAD(x.cfg.cipher) && (n.MacCS != x.cfg.mac || n.MacSC != x.cfg.mac)) {
			e.viol(tag+"negotiated algorithms on the wire differ from the only ones offered", "config", x.cfg.String(), "negotiated", fmt.Sprint(n))
		}
		if ex.SigErr != nil {
			e.viol(tag+"host key signature does not verify over the exchange hash recomputed from the wire: "+x.cfg.kex+" / "+x.cfg.algo,
				"config", x.cfg.String(), "exchange", ex.Index, "error", ex.SigErr.Error())
		}
		if ent, ok := e.keys.Get(x.cfg.algo); ok && !bytes.Equal(ex.KS, ent.Blob) {
			e.viol(tag+"K_S on the wire is not the server's host key for the negotiated algorithm", "config", x.cfg.String())
		}
		for side, hk := range map[string][]ssh.VerifC27KexInfo{"client": x.hookClient, "server": x.hookServer} {
			if ex.Index < len(hk) && !bytes.Equal(hk[ex.Index].H, ex.H) {
				e.viol(tag+"exchange hash of the "+side+" differs from the specification's H over the wire transcript: "+x.cfg.kex, "config", x.cfg.String(),
					"impl", vf.Hex8(hk[ex.Index].H), "ref", vf.Hex8(ex.H))
			}
		}
	}
	tr, err := tap.Decode(c2s, s2c, src.secret, tap.Options{OnExchange: onEx})
	if err != nil && isCBCEtM(x.cfg) {
		// characterise: does the traffic decode as encrypt-and-MAC?
		src2 := &secretSource{cliReads: cliReads, srvReads: srvReads, hook: hook, how: map[int]string{}, memo: map[string]*big.Int{}, used: map[string]bool{}}
		tr2, err2 := tap.Decode(c2s, s2c, src2.secret, tap.Options{MACName: func(cipher, mac string) string {
			return strings.TrimSuffix(mac, "-etm@openssh.com")
		}})
		if err2 == nil {
			e.viol(knownCBCEtM, "config", x.cfg.String(), "error", err.Error(), "who", x.who)
			tr, err, src = tr2, nil, src2
		}
	}
	if src.kErr != "" {
		e.viol(tag+"shared secret K is not the canonical encoding of the value recomputed from the wire: "+x.cfg.kex, "config", x.cfg.String(), "detail", src.kErr)
	}
	if err != nil {
		e.viol(tag+"independent decoder cannot decode the connection: "+x.cfg.layer+" "+classOf(x.cfg), "config", x.cfg.String(), "error", err.Error(),
			"exchanges_decoded", len(tr.Exchanges))
		return
	}
	for _, h := range src.how {
		c.Outcome(tag + h)
	}
	if tr.Unfinished && x.exactEx {
		e.viol(tag+"a stream ends inside a key exchange", "config", x.cfg.String())
	}
	if len(tr.Exchanges) < x.exchanges || (x.exactEx && len(tr.Exchanges) != x.exchanges) || (!x.exactEx && len(tr.Exchanges) > x.maxEx) {
		e.viol(tag+"number of key exchanges on the wire differs from the forced re-keys", "config", x.cfg.String(), "seen", len(tr.Exchanges), "want", x.exchanges)
	}
	cd, err1 := tap.ChannelData(tr.C2S)
	sd, err2 := tap.ChannelData(tr.S2C)
	if err1 != nil || err2 != nil {
		e.viol(tag+"malformed CHANNEL_DATA on the wire", "config", x.cfg.String())
		return
	}
	cmp := func(dir string, got map[int][]byte, perEpoch [][]byte, total []byte) {
		if perEpoch != nil {
			exact := len(perEpoch)
			if x.exactEpochs > 0 && x.exactEpochs < exact {
				exact = x.exactEpochs
			}
			for i, want := range perEpoch[:exact] {
				if !bytes.Equal(got[i+1], want) {
					e.viol(tag+"decrypted channel data of an epoch differs from what the application sent ("+dir+")", "config", x.cfg.String(),
						"epoch", i+1, "got", len(got[i+1]), "want", len(want))
				}
			}
			if exact < len(perEpoch) {
				// data written while a key exchange was in flight: which side of NEWKEYS a packet
				// travelled on is not determined, the concatenation over the remaining epochs is
				var g, w []byte
				for ep := exact + 1; ep <= len(got)+len(perEpoch); ep++ {
					g = append(g, got[ep]...)
				}
				for _, p := range perEpoch[exact:] {
					w = append(w, p...)
				}
				if !bytes.Equal(g, w) {
					e.viol(tag+"decrypted channel data written around a key exchange differs from what the application sent ("+dir+")", "config", x.cfg.String(),
						"from_epoch", exact+1, "got", len(g), "want", len(w))
				}
			}
		}
		var all []byte
		var eps []int
		for ep := range got {
			eps = append(eps, ep)
		}
		sort.Ints(eps)
		for _, ep := range eps {
			all = append(all, got[ep]...)
		}
		if total != nil && !bytes.Equal(all, total) {
			e.viol(tag+"decrypted channel data differs from what the application sent ("+dir+")", "config", x.cfg.String(), "got", len(all), "want", len(total))
		}
	}
	cmp("client->server", cd, x.c2s, x.totalC2S)
	cmp("server->client", sd, x.s2c, x.totalS2C)
	c.Add("packets_decoded", int64(len(tr.C2S)+len(tr.S2C)))
	c.Add("wire_bytes_decoded", int64(len(c2s)+len(s2c)))
	c.Outcome(tag + "tap decoded and authenticated independently")
}

func sshpkt_AEAD(cipher string) bool {
	cs, ok := sshpkt.LookupCipher(cipher)
	return ok && cs.AEAD
}

func classOf(c cfg) string {
	switch c.layer {
	case "kex x hostkey":
		return "kex=" + c.kex + " hostkey=" + c.algo
	case "hash size x key length", "kex x cipher":
		return "kex=" + c.kex + " cipher=" + c.cipher + " mac=" + c.mac
	}
	return "cipher=" + c.cipher + " mac=" + c.mac
}

func has(list []string, s string) bool {
	for _, x := range list {
		if x == s {
			return true
		}
	}
	return false
}

// ---------------------------------------------------------------------------------
// Go client <-> Go server

func (e *env) payload(label string, n int) []byte { return e.c.Bytes(label, n, n) }

var goRunVersions atomic.Int64

func (e *env) goRun(cf cfg) {
	c := e.c
	label := fmt.Sprintf("%d|go|%s", c.Seed, cf.String())
	cliRand, srvRand := newRecRand(label+"|cli"), newRecRand(label+"|srv")
	cEnd, sEnd, c2s, s2c := memPipe()
	ent, _ := e.keys.Get(cf.algo)

	srvCfg := e.serverConfig(srvRand, &cf, nil)
	if goRunVersions.Load()%2 == 1 {
		srvCfg.ServerVersion = "SSH-2.0-VerifGoServer_2.0 ends with a blank "
	}
	var sconn *ssh.ServerConn
	var serr error
	srvReady := make(chan struct{})
	srvDone := make(chan struct{})
	go func() {
		defer close(srvDone)
		sc, chans, reqs, err := ssh.NewServerConn(sEnd, srvCfg)
		sconn, serr = sc, err
		close(srvReady)
		if err != nil {
			sEnd.Close()
			return
		}
		serveConn(sc, chans, reqs, false)
	}()

	guard := time.AfterFunc(hangGuard, func() {
		e.viol("go-client: session does not finish (hang guard): "+cf.layer+" "+classOf(cf), "config", cf.String())
		cEnd.Close()
		sEnd.Close()
	})
	defer guard.Stop()

	var cbKey []byte
	cconf := &ssh.ClientConfig{
		User: "verif",
		Auth: []ssh.AuthMethod{ssh.Password(password)},
		HostKeyCallback: func(hostname string, remote net.Addr, key ssh.PublicKey) error {
			cbKey = key.Marshal()
			return nil
		},
		HostKeyAlgorithms: []string{cf.algo},
		ClientVersion:     "SSH-2.0-VerifGoClient_1.0",
	}
	// version lines end in different ways from run to run (a comment, a trailing blank, a blank
	// before the end): the identification strings enter the exchange hash exactly as sent, minus CR LF
	switch goRunVersions.Add(1) % 3 {
	case 1:
		cconf.ClientVersion = "SSH-2.0-VerifGoClient_1.0 build 7 "
	case 2:
		cconf.ClientVersion = "SSH-2.0-VerifGoClient_1.0  two  blanks"
	}
	cconf.Rand = cliRand
	cconf.KeyExchanges, cconf.Ciphers, cconf.MACs = []string{cf.kex}, []string{cf.cipher}, []string{cf.mac}

	fail := func(stage string, err error) {
		e.viol("go-client: "+stage+" fails between the Go client and the Go server: "+cf.layer+" "+classOf(cf), "config", cf.String(), "error", fmt.Sprint(err), "server", fmt.Sprint(serr))
		cEnd.Close()
		sEnd.Close()
		<-srvDone
	}
	cc, chans, reqs, err := ssh.NewClientConn(cEnd, "verif:22", cconf)
	c.Eval(1)
	if err != nil {
		<-srvReady
		fail("handshake/authentication", err)
		return
	}
	<-srvReady
	client := ssh.NewClient(cc, chans, reqs)
	if !bytes.Equal(cbKey, ent.Blob) {
		e.viol("go-client: host key callback received a key other than the server's key for the negotiated algorithm", "config", cf.String())
	}
	ckey := findConn(cc.SessionID(), false)
	skey := findConn(cc.SessionID(), true)
	defer forget(ckey)
	defer forget(skey)
	if ckey == nil || skey == nil {
		e.viol("go-client: kex tap saw no exchange for this connection", "config", cf.String())
	}
	ch, creqs, err := client.OpenChannel("session", nil)
	if err != nil {
		fail("opening a session channel", err)
		return
	}
	go ssh.DiscardRequests(creqs)

	var sentPerEpoch [][]byte
	exchange := func(phase int, sizes []int) bool {
		var all []byte
		for _, n := range sizes {
			p := e.payload(fmt.Sprintf("%s|p%d", label, phase), n)
			all = append(all, p...)
			werr := make(chan error, 1)
			// io.Writer: the buffer is the caller's again when Write returns; it is overwritten
			// at once, while the echo (and, during a key exchange, queued packets) is still in flight
			buf := append([]byte{}, p...)
			go func() {
				_, err := ch.Write(buf)
				for i := range buf {
					buf[i] ^= 0xff
				}
				werr <- err
			}()
			got := make([]byte, n)
			if _, err := io.ReadFull(ch, got); err != nil {
				fail(fmt.Sprintf("reading the echo of %d bytes (phase %d)", n, phase), err)
				return false
			}
			if err := <-werr; err != nil {
				fail(fmt.Sprintf("writing %d bytes (phase %d)", n, phase), err)
				return false
			}
			if !bytes.Equal(got, p) {
				e.viol("go-client: echoed bytes differ from the bytes sent: "+cf.layer+" "+classOf(cf), "config", cf.String(), "size", n, "phase", phase)
			}
		}
		sentPerEpoch = append(sentPerEpoch, all)
		return true
	}
	if !exchange(1, e.sizes) {
		return
	}
	// forced re-key
	var rerr error
	if cf.serverRekey {
		rerr = ssh.VerifC27RequestKeyExchange(sconn)
	} else {
		rerr = ssh.VerifC27RequestKeyExchange(cc)
	}
	if rerr != nil {
		e.viol("harness: cannot request a key exchange", "error", rerr.Error())
		fail("re-key request", rerr)
		return
	}
	if ckey != nil && !waitKex(ckey, 2) {
		fail("re-key", errors.New("second key exchange never completed"))
		return
	}
	if !exchange(2, e.sizes) {
		return
	}
	nex, exactEpochs := 2, 0
	if cf.secondRekey {
		// third key exchange, requested by the other party: the session identifier is still the
		// FIRST exchange hash (the previous one is a different value now), and the cipher objects
		// of the second epoch are replaced in turn. The data phase starts WITHOUT waiting for the
		// exchange: 12 small writes, each overwritten by the caller as soon as Write returns (the
		// channel reuses one packet buffer per direction, packets written during a key exchange are
		// queued), then a large one; after the exchange has completed, a last phase.
		if cf.serverRekey {
			rerr = ssh.VerifC27RequestKeyExchange(cc)
		} else {
			rerr = ssh.VerifC27RequestKeyExchange(sconn)
		}
		if rerr != nil {
			e.viol("harness: cannot request a key exchange", "error", rerr.Error())
			fail("second re-key request", rerr)
			return
		}
		var during []int
		for i := 0; i < 12; i++ {
			during = append(during, 700+i)
		}
		if !exchange(3, append(during, 40000)) {
			return
		}
		if ckey != nil && !waitKex(ckey, 3) {
			fail("second re-key", errors.New("third key exchange never completed"))
			return
		}
		if !exchange(4, []int{1, 0, 5000}) {
			return
		}
		nex, exactEpochs = 3, 1
	}
	ch.CloseWrite()
	rest, _ := io.ReadAll(ch)
	if len(rest) != 0 {
		e.viol("go-client: extra bytes after the echoed payloads", "config", cf.String(), "extra", len(rest))
	}
	client.Close()
	<-srvDone
	sEnd.Close()
	guard.Stop()
	c.Outcome("go-client: bytes echoed exactly before and after the re-key")

	x := expect{cfg: cf, exchanges: nex, exactEx: true, exactEpochs: exactEpochs, c2s: sentPerEpoch, s2c: sentPerEpoch, who: "go-client",
		hookClient: kexRecords(ckey), hookServer: kexRecords(skey)}
	e.decodeAndCheck(c2s.bytes(), s2c.bytes(), cliRand.snapshot(), srvRand.snapshot(), x)
	c.Nontrivial(fmt.Sprintf("go|%s|%s|server-initiated-rekey=%v|exchanges=%d", cf.layer, cf.String(), cf.serverRekey, nex))
	if nex == 3 {
		c.Outcome("go-client: three key exchanges, the last two requested by different parties")
	}
	if c.WantSample() {
		c.Sample(map[string]any{"peer": "Go client", "config": cf.String(), "wire_bytes": len(c2s.bytes()) + len(s2c.bytes())})
	}
}

// ---------------------------------------------------------------------------------
// oracle 3: OpenSSH client against the Go server

type sshRun struct {
	user  string
	tap   *tcpTap
	rand  *recRand
	sconn *ssh.ServerConn
	serr  error
	done  chan struct{}
	seen  chan struct{}
}

type openssh struct {
	e        *env
	bin      string
	version  string
	dir      string
	idFile   string
	known    string
	pub      ssh.PublicKey
	ln       net.Listener
	port     int
	mu       sync.Mutex
	runs     map[string]*sshRun
	nextUser atomic.Int64
	sup      map[string]map[string]bool // query -> names
}

func (o *openssh) query(what string) map[string]bool {
	out, err := exec.Command(o.bin, "-Q", what).Output()
	m := map[string]bool{}
	if err != nil {
		return m
	}
	for _, l := range strings.Fields(string(out)) {
		m[l] = true
	}
	return m
}

func startOpenSSH(e *env) (*openssh, string) {
	bin := "/usr/bin/ssh"
	if _, err := os.Stat(bin); err != nil {
		return nil, "absent (/usr/bin/ssh not found)"
	}
	o := &openssh{e: e, bin: bin, runs: map[string]*sshRun{}, sup: map[string]map[string]bool{}}
	v, _ := exec.Command(bin, "-V").CombinedOutput()
	o.version = strings.TrimSpace(string(v))
	dir, err := os.MkdirTemp("", "verif-c27-")
	if err != nil {
		return nil, "skipped (no temp dir: " + err.Error() + ")"
	}
	o.dir = dir
	o.idFile = filepath.Join(dir, "id_ed25519")
	if kg, err := exec.LookPath("ssh-keygen"); err == nil {
		if out, err := exec.Command(kg, "-q", "-t", "ed25519", "-N", "", "-C", "verif", "-f", o.idFile).CombinedOutput(); err != nil {
			os.RemoveAll(dir)
			return nil, "skipped (ssh-keygen failed: " + strings.TrimSpace(string(out)) + ")"
		}
	} else {
		os.RemoveAll(dir)
		return nil, "skipped (no ssh-keygen to create the client key)"
	}
	pubLine, err := os.ReadFile(o.idFile + ".pub")
	if err != nil {
		os.RemoveAll(dir)
		return nil, "skipped (no public key file)"
	}
	if o.pub, _, _, _, err = ssh.ParseAuthorizedKey(pubLine); err != nil {
		os.RemoveAll(dir)
		return nil, "skipped (cannot parse the generated public key)"
	}
	ln, err := net.Listen("tcp", "127.0.0.1:0")
	if err != nil {
		os.RemoveAll(dir)
		return nil, "skipped (cannot bind a loopback TCP port: " + err.Error() + ")"
	}
	o.ln = ln
	o.port = ln.Addr().(*net.TCPAddr).Port
	// host certificates are checked against the CA, plain host keys are accepted on first use
	o.known = filepath.Join(dir, "known_hosts")
	ca := strings.TrimSpace(string(ssh.MarshalAuthorizedKey(e.keys.CA.PublicKey())))
	os.WriteFile(o.known, []byte(fmt.Sprintf("@cert-authority * %s\n", ca)), 0o600)
	for _, q := range []string{"kex", "HostKeyAlgorithms", "cipher", "mac"} {
		o.sup[q] = o.query(q)
	}
	go o.accept()
	return o, ""
}

func (o *openssh) stop() {
	o.ln.Close()
	os.RemoveAll(o.dir)
}

func (o *openssh) accept() {
	var n int64
	for {
		conn, err := o.ln.Accept()
		if err != nil {
			return
		}
		n++
		go func(conn net.Conn, n int64) {
			t := &tcpTap{Conn: conn}
			r := newRecRand(fmt.Sprintf("%d|openssh-srv|%d", o.e.c.Seed, n))
			sc, chans, reqs, err := ssh.NewServerConn(t, o.e.serverConfig(r, nil, o.pub))
			if err != nil {
				conn.Close()
				// attribute the failure to the run if the user name got through; otherwise the run sees no connection
				return
			}
			o.mu.Lock()
			run := o.runs[sc.User()]
			o.mu.Unlock()
			if run == nil {
				sc.Close()
				return
			}
			run.tap, run.rand, run.sconn = t, r, sc
			close(run.seen)
			serveConn(sc, chans, reqs, true)
			close(run.done)
		}(conn, n)
	}
}

func (o *openssh) run(cf cfg, payload []byte) {
	e, c := o.e, o.e.c
	user := fmt.Sprintf("u%d", o.nextUser.Add(1))
	run := &sshRun{user: user, done: make(chan struct{}), seen: make(chan struct{})}
	o.mu.Lock()
	o.runs[user] = run
	o.mu.Unlock()
	defer func() { o.mu.Lock(); delete(o.runs, user); o.mu.Unlock() }()

	strict := "no"
	if strings.HasSuffix(cf.algo, "-cert-v01@openssh.com") {
		strict = "yes" // the certificate must validate against the @cert-authority line
	}
	args := []string{"-F", "/dev/null", "-T",
		"-o", "StrictHostKeyChecking=" + strict, "-o", "UserKnownHostsFile=" + o.known, "-o", "GlobalKnownHostsFile=/dev/null",
		"-o", "UpdateHostKeys=no",
		"-o", "KexAlgorithms=" + cf.kex, "-o", "HostKeyAlgorithms=" + cf.algo, "-o", "Ciphers=" + cf.cipher, "-o", "MACs=" + cf.mac,
		"-o", "IdentityFile=" + o.idFile, "-o", "IdentitiesOnly=yes", "-o", "PreferredAuthentications=publickey", "-o", "BatchMode=yes",
		"-o", "LogLevel=ERROR", "-o", "ConnectTimeout=120",
		"-p", fmt.Sprint(o.port), user + "@127.0.0.1", "echo-stdin"}
	if cf.clientLimit {
		// OpenSSH 9.2 adds the byte length of the next packet to its block count, so with this
		// limit the client asks for a new key exchange before nearly every full-size packet
		args = append([]string{"-o", "RekeyLimit=256K"}, args...)
	}
	if strict == "no" {
		// plain keys: do not let the CA line interfere, nothing is remembered
		for i, a := range args {
			if strings.HasPrefix(a, "UserKnownHostsFile=") {
				args[i] = "UserKnownHostsFile=/dev/null"
			}
		}
	}
	ctx, cancel := context.WithTimeout(context.Background(), hangGuard)
	defer cancel()
	cmd := exec.CommandContext(ctx, o.bin, args...)
	cmd.Env = []string{"HOME=" + o.dir, "PATH=/usr/bin:/bin"}
	cmd.Stdin = bytes.NewReader(payload)
	var stdout, stderr bytes.Buffer
	cmd.Stdout, cmd.Stderr = &stdout, &stderr
	err := cmd.Run()
	c.Eval(1)
	tag := "openssh-client: "
	known := isCBCEtM(cf)
	if err != nil || !bytes.Equal(stdout.Bytes(), payload) {
		if known {
			e.viol("OpenSSH client cannot talk to the Go server with a cbc cipher and an -etm@openssh.com MAC (Go frames these packets encrypt-and-MAC)",
				"config", cf.String(), "stderr", strings.TrimSpace(stderr.String()))
			c.Outcome(tag + "known cbc+etm framing defect reproduced")
			return
		}
		e.viol(tag+"OpenSSH client fails against the Go server or the echoed bytes differ: "+cf.layer+" "+classOf(cf), "config", cf.String(),
			"error", fmt.Sprint(err), "stderr", strings.TrimSpace(stderr.String()), "got", stdout.Len(), "want", len(payload))
		return
	}
	c.Outcome(tag + "exit status 0 and bytes echoed exactly")
	select {
	case <-run.seen:
	case <-time.After(hangGuard):
		e.viol(tag+"the Go server never saw the authenticated connection", "config", cf.String())
		return
	}
	select {
	case <-run.done:
	case <-time.After(hangGuard):
		e.viol(tag+"the Go server side of the connection never finished", "config", cf.String())
		return
	}
	skey := findConn(run.sconn.SessionID(), true)
	defer forget(skey)
	recs := kexRecords(skey)
	if len(payload) >= 100000 && len(recs) < 2 {
		e.viol(tag+"no re-key happened although the Go server has RekeyThreshold=120000", "config", cf.String(), "exchanges", len(recs))
	}
	if len(recs) >= 2 {
		c.Outcome(tag + "re-keyed during the transfer")
	}
	run.tap.mu.Lock()
	c2s, s2c := append([]byte{}, run.tap.c2s...), append([]byte{}, run.tap.s2c...)
	run.tap.mu.Unlock()
	// the connection may be closed while a further re-key is in flight: at least the
	// exchanges the session needed, at most the ones the server computed
	x := expect{cfg: cf, exchanges: min(len(recs), 2), maxEx: len(recs), totalC2S: payload, totalS2C: payload, who: "openssh-client", hookServer: recs}
	e.decodeAndCheck(c2s, s2c, nil, run.rand.snapshot(), x)
	c.Nontrivial(fmt.Sprintf("openssh|%s|%s|client-rekey-limit=%v|%d", cf.layer, cf.String(), cf.clientLimit, len(payload)))
	if c.WantSample() {
		c.Sample(map[string]any{"peer": o.version, "config": cf.String(), "exchanges": len(recs), "wire_bytes": len(c2s) + len(s2c)})
	}
}

// ---------------------------------------------------------------------------------

func union(a, b []string) []string {
	var out []string
	seen := map[string]bool{}
	for _, s := range append(append([]string{}, a...), b...) {
		if !seen[s] {
			seen[s] = true
			out = append(out, s)
		}
	}
	return out
}

func run(c *vf.Ctx) {
	c.Rule("configurations: (layer 1) every key exchange x every host key algorithm of SupportedAlgorithms()+InsecureAlgorithms() with the cipher/MAC fixed, " +
		"(layer 2) every cipher x every MAC with kex/host key fixed, (layer 3) every exchange hash size x key material of 1..4 digests; each run = handshake, authentication, session channel, payloads {0,1,200000} bytes echoed, " +
		"forced re-key, payloads again; for every cipher x MAC pair, every hash size x key length class and every key exchange once (thorough: everywhere) then a SECOND re-key requested by the other party with 12 small writes + 40000 bytes written while that exchange is in flight, and a last data phase (three exchanges, session id = first H; every Write buffer is overwritten by the caller as soon as Write returns); once with the Go client over a tapped in-memory pipe, once (where OpenSSH supports the algorithms) with /usr/bin/ssh over loopback TCP. " +
		"A case is distinct by (peer, layer, algorithm pair).")
	c.Assume("standard library primitives (AES, DES, RC4, HMAC, hashes, RSA/ECDSA/Ed25519/DSA verification, ML-KEM) are trusted; ChaCha20, Poly1305, GCM, CTR, CBC framing, key derivation, exchange hashes and negotiation are re-implemented in /verif/ref")
	c.Assume("for ECDH over NIST curves and ML-KEM the shared secret is taken from the implementation through a hook (ephemeral keys come from process entropy in Go 1.26); H, the signature check, key derivation and packet processing are independent of it")
	c.Assume("reduced claim: no sshd exists in the image, so the direction Go client -> OpenSSH server is represented by the independent decoder and by the reference server of C29 only")

	sup, ins := ssh.SupportedAlgorithms(), ssh.InsecureAlgorithms()
	e := &env{c: c, sizes: []int{0, 1, 200000}}
	e.kex = union(sup.KeyExchanges, ins.KeyExchanges)
	e.algos = union(sup.HostKeys, ins.HostKeys)
	e.ciphers = union(sup.Ciphers, ins.Ciphers)
	e.macs = union(sup.MACs, ins.MACs)
	keys, skipped, err := hk.New(c.Seed, e.algos)
	if err != nil {
		panic(err)
	}
	e.keys = keys
	if len(skipped) > 0 {
		c.Capped("host key algorithms without a key in the harness: " + strings.Join(skipped, ","))
		var kept []string
		for _, a := range e.algos {
			if _, ok := keys.Get(a); ok {
				kept = append(kept, a)
			}
		}
		e.algos = kept
	}
	e.signers = keys.DistinctSigners()
	c.Set("kex", e.kex)
	c.Set("host_key_algorithms", e.algos)
	c.Set("ciphers", e.ciphers)
	c.Set("macs", e.macs)
	ssh.VerifC27TapKex(onKex)

	fixedKex, fixedAlgo := "curve25519-sha256", "ssh-ed25519"
	fixedCipher, fixedMAC := "aes128-ctr", "hmac-sha2-256"
	var cfgs []cfg
	for _, k := range e.kex {
		for _, a := range e.algos {
			cfgs = append(cfgs, cfg{layer: "kex x hostkey", kex: k, algo: a, cipher: fixedCipher, mac: fixedMAC})
		}
	}
	for _, ci := range e.ciphers {
		for _, m := range e.macs {
			cfgs = append(cfgs, cfg{layer: "cipher x mac", kex: fixedKex, algo: fixedAlgo, cipher: ci, mac: m})
		}
	}
	// layer 3: RFC 4253 7.2 key stretching classes: every exchange hash size x key material of
	// 1..4 digests (64-byte chacha20 and hmac-sha2-512 keys with SHA-1/256/384/512 exchanges)
	for _, k := range []string{"diffie-hellman-group14-sha1", "ecdh-sha2-nistp256", "ecdh-sha2-nistp384", "ecdh-sha2-nistp521"} {
		for _, cm := range [][2]string{{"chacha20-poly1305@openssh.com", fixedMAC}, {"aes256-ctr", "hmac-sha2-512"}, {"3des-cbc", "hmac-sha1-96"}} {
			if has(e.kex, k) && has(e.ciphers, cm[0]) && has(e.macs, cm[1]) {
				cfgs = append(cfgs, cfg{layer: "hash size x key length", kex: k, algo: fixedAlgo, cipher: cm[0], mac: cm[1]})
			}
		}
	}
	goCfgs := append([]cfg{}, cfgs...)
	for i := range goCfgs {
		// a second re-key (by the server; the first one is the client's) wherever the key exchange
		// is cheap: every cipher x MAC pair, every hash size x key length class, and every key
		// exchange once (with the fixed host key); thorough: everywhere
		cf := &goCfgs[i]
		cf.secondRekey = c.Thorough || cf.layer != "kex x hostkey" || cf.algo == fixedAlgo
	}
	if c.Thorough {
		// second pass: the server initiates the re-key, and the fixed halves are different ones
		for _, k := range e.kex {
			for _, a := range e.algos {
				goCfgs = append(goCfgs, cfg{layer: "kex x hostkey", kex: k, algo: a, cipher: "chacha20-poly1305@openssh.com", mac: fixedMAC, serverRekey: true, secondRekey: true})
			}
		}
		for _, ci := range e.ciphers {
			for _, m := range e.macs {
				goCfgs = append(goCfgs, cfg{layer: "cipher x mac", kex: "ecdh-sha2-nistp256", algo: "rsa-sha2-512", cipher: ci, mac: m, serverRekey: true, secondRekey: true})
			}
		}
	}
	if c.Thorough {
		// third pass: every key exchange x every cipher (exchange hash size against key/IV sizes)
		for _, k := range e.kex {
			for _, ci := range e.ciphers {
				goCfgs = append(goCfgs, cfg{layer: "kex x cipher", kex: k, algo: "ecdsa-sha2-nistp256", cipher: ci, mac: "hmac-sha2-512"})
			}
		}
	}
	// heavy key exchanges first so that the pool drains evenly
	weight := func(cf cfg) int {
		switch {
		case strings.Contains(cf.kex, "group16"):
			return 3
		case strings.Contains(cf.kex, "group-exchange"), strings.Contains(cf.kex, "group14"):
			return 2
		}
		return 1
	}
	sort.SliceStable(goCfgs, func(i, j int) bool { return weight(goCfgs[i]) > weight(goCfgs[j]) })
	c.ParallelFor(len(goCfgs), func(i int) { e.goRun(goCfgs[i]) })
	c.Set("go_client_configurations", len(goCfgs))

	// ---- oracle 3
	o, why := startOpenSSH(e)
	if o == nil {
		c.Set("external_oracle", why)
		return
	}
	defer o.stop()
	var sshCfgs []cfg
	var unsupported []string
	reduced := 0
	for _, cf := range cfgs {
		miss := ""
		switch {
		case !o.sup["kex"][cf.kex]:
			miss = "kex " + cf.kex
		case !o.sup["HostKeyAlgorithms"][cf.algo]:
			miss = "host key algorithm " + cf.algo
		case !o.sup["cipher"][cf.cipher]:
			miss = "cipher " + cf.cipher
		case !o.sup["mac"][cf.mac]:
			miss = "MAC " + cf.mac
		}
		if miss != "" {
			unsupported = append(unsupported, miss)
			continue
		}
		if !c.Thorough && cf.layer == "kex x hostkey" && (strings.Contains(cf.kex, "group16") || strings.Contains(cf.kex, "group-exchange")) &&
			!has([]string{"ssh-ed25519", "rsa-sha2-512", "ecdsa-sha2-nistp256-cert-v01@openssh.com", "ssh-dss"}, cf.algo) {
			// quick tier: the 3072/4096-bit exchanges are driven with four host key algorithms
			// only (every algorithm is still paired with every other key exchange); thorough: all
			reduced++
			continue
		}
		// client-initiated re-keys too: for every cipher x MAC pair (cheap kex) in the quick tier, for everything in the thorough tier
		cf.clientLimit = cf.layer == "cipher x mac" || c.Thorough
		sshCfgs = append(sshCfgs, cf)
	}
	unsupported = union(unsupported, nil)
	sort.SliceStable(sshCfgs, func(i, j int) bool { return weight(sshCfgs[i]) > weight(sshCfgs[j]) })
	big200k := e.payload("openssh|payload", 200000)
	c.ParallelFor(len(sshCfgs), func(i int) { o.run(sshCfgs[i], big200k) })
	// the small sizes once per layer
	for _, cf := range []cfg{{layer: "kex x hostkey", kex: fixedKex, algo: fixedAlgo, cipher: fixedCipher, mac: fixedMAC}} {
		for _, n := range []int{0, 1} {
			p := make([]byte, n)
			rand.Read(p)
			o.run(cf, p)
		}
	}
	c.Set("external_oracle", fmt.Sprintf("%s (client only): %d configurations driven against the Go server over loopback TCP; not supported by this OpenSSH: %s; "+
		"%d large-group configurations left to the thorough tier; no sshd in the image, so Go client -> OpenSSH server is not exercised", o.version, len(sshCfgs), strings.Join(unsupported, ", "), reduced))
}
