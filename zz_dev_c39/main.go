package main

import (
	"crypto/ed25519"
	"crypto/ecdsa"
	"crypto/elliptic"
	"fmt"
	"math/big"

	"golang.org/x/crypto/ssh"
	"verif/vf"
)

func main() {
	pub1, priv1, _ := ed25519.GenerateKey(vf.NewRand("a"))
	pub2, _, _ := ed25519.GenerateKey(vf.NewRand("b"))
	bad := append(append([]byte{}, priv1[:32]...), pub2...)
	k := ed25519.PrivateKey(bad)
	p, v, _ := vf.Protect(func() {
		s, err := ssh.NewSignerFromKey(&k)
		fmt.Println("signer", err)
		sig, err := s.Sign(vf.NewRand("r"), []byte("hello"))
		fmt.Println("sign err", err)
		if err == nil {
			fmt.Println("verify", s.PublicKey().Verify([]byte("hello"), sig))
		}
	})
	fmt.Println(p, v)
	_ = pub1
	// negative D
	ek, _ := ecdsa.GenerateKey(elliptic.P256(), vf.NewRand("e"))
	ek.D = new(big.Int).Neg(ek.D)
	p, v, _ = vf.Protect(func() {
		s, err := ssh.NewSignerFromKey(ek)
		fmt.Println("signer", err)
		sig, err := s.Sign(vf.NewRand("r"), []byte("hello"))
		fmt.Println("sign err", err)
		if err == nil {
			fmt.Println("verify", s.PublicKey().Verify([]byte("hello"), sig))
		}
	})
	fmt.Println(p, v)
}
