package main

import (
	"crypto/ed25519"
	"encoding/base64"
	"fmt"
	"os"
	"strconv"

	"verif/checks/c39/detkeys"
	cr "verif/ref/sshcertref"
	kv "verif/ref/sshkeyv1"
	sr "verif/ref/sshsigref"
)

func main() {
	dir := os.Args[1]
	vb, _ := strconv.ParseUint(os.Args[2], 0, 64)
	ca := detkeys.Ed25519("ca")
	user := detkeys.Ed25519("user")
	up := sr.FromEd25519(user.Public().(ed25519.PublicKey))
	ct := &cr.Cert{TypeName: sr.CertTypeOf(sr.ED25519), Nonce: make([]byte, 32), KeyFields: up.KeyFields(), Serial: 1, CertType: cr.User, KeyID: "probe",
		Principals: []string{"alice"}, ValidAfter: 0, ValidBefore: vb}
	cab := sr.FromEd25519(ca.Public().(ed25519.PublicKey)).Blob()
	ct.SignWith(cab, func(tbs []byte) sr.Sig { return sr.SignEd25519(ca, tbs) })
	os.WriteFile(dir+"/user", kv.Armor(kv.Encode(&kv.Key{Type: sr.ED25519, Ed25519: user}, "user", 5)), 0o600)
	os.WriteFile(dir+"/user.pub", []byte("ssh-ed25519 "+base64.StdEncoding.EncodeToString(up.Blob())+" user\n"), 0o644)
	os.WriteFile(dir+"/user-cert.pub", []byte(ct.TypeName+" "+base64.StdEncoding.EncodeToString(ct.Bytes())+" user\n"), 0o644)
	os.WriteFile(dir+"/allowed", []byte("alice cert-authority ssh-ed25519 "+base64.StdEncoding.EncodeToString(cab)+"\n"), 0o644)
	os.WriteFile(dir+"/msg", []byte("hello\n"), 0o644)
	fmt.Println("written, valid before", vb)
}
