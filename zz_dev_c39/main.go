package main

import (
	"fmt"
	"time"

	"verif/ref/bcryptpbkdfref"
)

func main() {
	t := time.Now()
	k, err := bcryptpbkdfref.Key([]byte("x"), []byte("0123456789abcdef"), 16, 48)
	fmt.Println(len(k), err, time.Since(t))
}
