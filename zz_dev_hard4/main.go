package main

import (
	"fmt"
	"time"

	"verif/ref/argon2ref"
)

func main() {
	pw, salt := []byte("12345678"), []byte("0123456789abcdef")
	for _, x := range [][4]uint32{{1, 65536, 1, 32}, {1, 65553, 3, 32}, {1, 8, 1, 65632}, {257, 8, 1, 32}, {1, 8 * 64, 64, 32}, {1, 4096, 255, 32}, {1, 2048, 2, 32}, {3, 256, 16, 32}} {
		t0 := time.Now()
		argon2ref.Lenient(2, pw, salt, nil, nil, x[0], x[1], x[2], x[3])
		fmt.Println(x, time.Since(t0))
	}
}
