package main

import (
	"fmt"
	"verif/ref/blake2ref"
)

func pat(n, s int) []byte {
	b := make([]byte, n)
	for i := range b {
		b[i] = byte(i*7 + s)
	}
	return b
}
func main() {
	for size := 1; size <= 64; size++ {
		for _, kl := range []int{0, 1, 17, 63, 64} {
			for _, ml := range []int{0, 1, 127, 128, 129, 255, 256, 257, 600} {
				fmt.Printf("b %d %d %d %x\n", size, kl, ml, blake2ref.SumB(size, pat(kl, 3), pat(ml, 1)))
			}
		}
	}
	for size := 1; size <= 32; size++ {
		for _, kl := range []int{0, 1, 17, 31, 32} {
			for _, ml := range []int{0, 1, 63, 64, 65, 127, 128, 129, 600} {
				fmt.Printf("s %d %d %d %x\n", size, kl, ml, blake2ref.SumS(size, pat(kl, 3), pat(ml, 1)))
			}
		}
	}
	for _, l := range []uint32{1, 64, 65, 1000, 65535, 70000, 0xffffffff} {
		fmt.Printf("rb %d %x\n", l, blake2ref.XRootB(l, pat(9, 3), pat(200, 1)))
	}
	for _, l := range []uint16{1, 32, 33, 1000, 65534, 65535} {
		fmt.Printf("rs %d %x\n", l, blake2ref.XRootS(l, pat(9, 3), pat(200, 1)))
	}
}
