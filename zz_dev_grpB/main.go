package main

import (
	"bytes"
	"crypto/sha3"
	"fmt"
	"verif/ref/keccakref"
)

func pat(n, s int) []byte {
	b := make([]byte, n)
	for i := range b {
		b[i] = byte(i*7 + s)
	}
	return b
}
func main() {
	for ml := 0; ml <= 420; ml++ {
		m := pat(ml, 1)
		for _, b := range []int{224, 256, 384, 512} {
			fmt.Printf("sha3_%d %d %x\n", b, ml, keccakref.SHA3(b, m))
		}
		fmt.Printf("shake_128 %d %x\n", ml, keccakref.SHAKE(128, m, 400))
		fmt.Printf("shake_256 %d %x\n", ml, keccakref.SHAKE(256, m, 400))
	}
	// cSHAKE vs Go standard library (third source, development time only)
	bad := 0
	n := 0
	for _, nl := range []int{0, 1, 5, 135, 136, 137, 167, 168, 169, 200, 300} {
		for _, sl := range []int{0, 1, 20, 130, 131, 132, 133, 163, 164, 165, 200, 400} {
			for _, ml := range []int{0, 1, 135, 136, 137, 168, 169, 500} {
				N, S, m := pat(nl, 2), pat(sl, 3), pat(ml, 4)
				for _, bits := range []int{128, 256} {
					var h *sha3.SHAKE
					if bits == 128 {
						h = sha3.NewCSHAKE128(N, S)
					} else {
						h = sha3.NewCSHAKE256(N, S)
					}
					h.Write(m)
					out := make([]byte, 300)
					h.Read(out)
					n++
					if !bytes.Equal(out, keccakref.CSHAKE(bits, N, S, m, 300)) {
						bad++
						fmt.Println("CSHAKE MISMATCH", bits, nl, sl, ml)
					}
				}
			}
		}
	}
	fmt.Println("cshake compared", n, "bad", bad)
}
