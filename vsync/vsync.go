// Package vsync mirrors the subset of package sync used by instrumented code.
package vsync

import (
	"sync"
	"verif/sched"
)

type Mutex = sched.Mutex
type RWMutex = sched.RWMutex
type Cond = sched.Cond
type Locker = sched.Locker
type WaitGroup = sched.WaitGroup
type Once = sched.Once
type Pool = sched.Pool
type Map = sync.Map

func NewCond(l Locker) *Cond { return sched.NewCond(l) }

func OnceValue[T any](f func() T) func() T { return sync.OnceValue(f) }
func OnceFunc(f func()) func()             { return sync.OnceFunc(f) }
