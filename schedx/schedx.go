// Package schedx connects the interleaving explorer (verif/sched) with the check
// front end (verif/vf): scenarios are explored in worker processes (the scheduler is
// per process), every violation is re-run from its recorded schedule before it is
// believed, and the merged coverage goes into the evidence file.
package schedx

import (
	"encoding/json"
	"fmt"
	"os"
	"os/exec"
	"regexp"
	"runtime"
	"sort"
	"strings"
	"sync"
	"time"

	"verif/sched"
	"verif/vf"
)

// Scenario is one closed harness explored under the scheduler.
type Scenario struct {
	Name  string
	Group string // scenarios with the same Group are reported together in the evidence (default: Name)
	Bound int    // deviation bound
	// FromMark: deviations are only placed after the harness body called the scheduler's
	// Mark (verifMark() in harness code); the set-up before it runs in the default schedule.
	FromMark bool
	// Body runs as goroutine 0 under the scheduler; it returns the observation of
	// this execution (any value; nil if the execution was cut off before returning).
	Body func() any
	// Check is the oracle for an execution that ran to completion (Body returned).
	// It returns "" or a violation class plus detail.
	Check func(obs any) (class, detail string)
	// Outcome maps an observation to a short key; distinct outcomes are tallied as a
	// vacuity guard. Optional.
	Outcome func(obs any) string
	// DeadlockClass optionally names a deadlock from the blocked-goroutine
	// descriptions ("" = use the generic class: the set of non-harness wait sites;
	// "-" = this deadlock is acceptable for the scenario, e.g. a handshake that must not
	// complete because the peer withheld a packet).
	DeadlockClass func(blocked []string) string
	// DeadlockOK: a deadlock (no enabled goroutine before Body returned) is not a
	// violation for this scenario (default false: the property forbids it).
	DeadlockOK bool
}

// Finding is a violation found by a worker.
type Finding struct {
	Scenario string `json:"scenario"`
	Class    string `json:"class"`
	Detail   string `json:"detail"`
	Schedule []int  `json:"schedule"`
	Repro    int    `json:"reproduced_of_5"`
}

var lineNo = regexp.MustCompile(`:\d+`)

// classify derives a stable class for a deadlock from where the goroutines wait
// (function names and operation kinds, without line numbers).
func deadlockClass(blocked []string) string {
	var parts []string
	for _, b := range blocked {
		// "g3(name) waits: lock at ssh.(*forwardList).remove:290 < ..."
		i := strings.Index(b, "waits: ")
		if i < 0 {
			continue
		}
		w := b[i+7:]
		if j := strings.Index(w, " < "); j >= 0 {
			w = w[:j]
		}
		w = lineNo.ReplaceAllString(w, "")
		if strings.Contains(w, "Verif") {
			continue // harness goroutine (e.g. the body waiting for its workers)
		}
		dup := false
		for _, p := range parts {
			dup = dup || p == w
		}
		if !dup {
			parts = append(parts, w)
		}
	}
	sort.Strings(parts)
	return "deadlock: " + strings.Join(parts, " | ")
}

type result struct {
	Stats     map[string]sched.Stats `json:"stats"`
	Findings  []Finding              `json:"findings"`
	Outcomes  map[string]int64       `json:"outcomes"`
	Flaky     int                    `json:"flaky"`
	Scenarios int                    `json:"scenarios"`
	Samples   []string               `json:"samples"`
}

// runOne executes one schedule of sc and returns (exec record, observation).
func runOne(sc *Scenario, prefix []int) (*sched.Exec, any) {
	var obs any
	x := sched.Run(prefix, func() { obs = sc.Body() })
	return x, obs
}

func judge(sc *Scenario, x *sched.Exec, obs any) (class, detail string) {
	switch {
	case x.Panic != nil:
		msg := fmt.Sprint(x.Panic)
		if i := strings.IndexByte(msg, '\n'); i >= 0 {
			msg = msg[:i]
		}
		return "panic: " + lineNo.ReplaceAllString(msg, ""), x.PanicStack
	case x.Deadlock:
		if sc.DeadlockOK {
			return "", ""
		}
		if sc.DeadlockClass != nil {
			if cl := sc.DeadlockClass(x.Blocked); cl == "-" {
				return "", "" // the scenario accepts this deadlock
			} else if cl != "" {
				return cl, strings.Join(x.Blocked, "; ")
			}
		}
		return deadlockClass(x.Blocked), strings.Join(x.Blocked, "; ")
	case x.Horizon:
		return "", ""
	}
	if sc.Check != nil {
		return sc.Check(obs)
	}
	return "", ""
}

// worker explores shard/n of every scenario and prints the result as JSON.
func worker(scs []Scenario, shard, n int, stop func() bool) result {
	res := result{Stats: map[string]sched.Stats{}, Outcomes: map[string]int64{}}
	seenClass := map[string]bool{}
	// Many small scenarios are spread over the workers whole; few big ones are
	// split by level-1 subtrees.
	byScenario := len(scs) >= 4*n
	for i := range scs {
		sc := &scs[i]
		var obs any
		e := &sched.Explorer{Bound: sc.Bound, Shard: shard, NShards: n, Stop: stop, FromMark: sc.FromMark}
		if byScenario {
			if i%n != shard {
				continue
			}
			e.Shard, e.NShards = 0, 1
		}
		e.Body = func() { obs = nil; obs = sc.Body() }
		e.OnExec = func(x *sched.Exec) {
			o := obs
			if sc.Outcome != nil && !x.Deadlock && x.Panic == nil && !x.Horizon {
				res.Outcomes[sc.Name+": "+sc.Outcome(o)]++
			} else if x.Deadlock {
				res.Outcomes[sc.Name+": <deadlock>"]++
			} else if x.Panic != nil {
				res.Outcomes[sc.Name+": <panic>"]++
			}
			if len(res.Samples) < 3 && x.Deviations() == sc.Bound {
				res.Samples = append(res.Samples, fmt.Sprintf("%s schedule=%v", sc.Name, compress(x.Choices())))
			}
			class, detail := judge(sc, x, o)
			if class == "" {
				return
			}
			if seenClass[sc.Name+"|"+class] {
				return
			}
			// Re-run the recorded schedule 5 times (with wait positions recorded) and
			// require the same verdict each time before believing it.
			sch := x.Choices()
			repro := 0
			final := class
			for k := 0; k < 5; k++ {
				x2, o2 := runOne(sc, sch)
				c2, d2 := judge(sc, x2, o2)
				if c2 == class {
					repro++
					detail = d2
				}
			}
			if repro < 5 {
				res.Flaky++
				return
			}
			if seenClass[sc.Name+"|"+final] {
				return
			}
			seenClass[sc.Name+"|"+final] = true
			res.Findings = append(res.Findings, Finding{Scenario: sc.Name, Class: final, Detail: detail, Schedule: sch, Repro: repro})
		}
		e.Explore()
		g := sc.Group
		if g == "" {
			g = sc.Name
		}
		st := res.Stats[g]
		mergeStats(&st, e.Stats)
		res.Stats[g] = st
		res.Scenarios++
	}
	return res
}

// compress renders a schedule as "point:choice" pairs for the non-default choices.
func compress(c []int) string {
	var p []string
	for i, k := range c {
		if k != 0 {
			p = append(p, fmt.Sprintf("%d:%d", i, k))
		}
	}
	return fmt.Sprintf("len=%d deviations=[%s]", len(c), strings.Join(p, " "))
}

// Explore runs all scenarios. In the parent process it spreads the work over worker
// processes and records coverage and violations in c; inside a worker it explores its
// shard, prints JSON and exits.
func Explore(c *vf.Ctx, scs []Scenario) {
	// development aid: VERIF_SCENARIO=<regexp> restricts the run to matching scenarios (the run is
	// then reported as not exhaustive); workers inherit the variable and filter identically
	if pat := os.Getenv("VERIF_SCENARIO"); pat != "" {
		re := regexp.MustCompile(pat)
		var f []Scenario
		for _, s := range scs {
			if re.MatchString(s.Name) {
				f = append(f, s)
			}
		}
		scs = f
		if _, _, ok := sched.ShardEnv(); !ok {
			c.Capped("VERIF_SCENARIO filter active: " + pat)
		}
	}
	if shard, n, ok := sched.ShardEnv(); ok {
		res := worker(scs, shard, n, c.Expired)
		b, _ := json.Marshal(res)
		fmt.Printf("\n%s\n", b)
		os.Exit(0)
	}
	if c.Replay != nil {
		replay(c, scs)
		return
	}
	if n := os.Getenv("VERIF_RACE_ITERS"); n != "" {
		racePass(scs, n)
		os.Exit(0)
	}
	// determinism self-test: the default schedule of the first scenario twice
	if len(scs) > 0 {
		x1, o1 := runOne(&scs[0], nil)
		x2, o2 := runOne(&scs[0], x1.Choices())
		a, _ := json.Marshal(o1)
		b, _ := json.Marshal(o2)
		if len(x1.Points) != len(x2.Points) || string(a) != string(b) {
			c.Capped("determinism self-test failed: replaying a recorded schedule gave a different execution; results not trusted")
			c.Set("determinism_selftest", "FAILED")
			return
		}
		c.Set("determinism_selftest", "ok: schedule replayed twice with identical observation")
	}
	nw := runtime.NumCPU()
	if v := os.Getenv("VERIF_WORKERS"); v != "" {
		fmt.Sscanf(v, "%d", &nw)
	}
	results, errs := runWorkers(nw)
	for _, e := range errs {
		// a dead worker means part of the space was not explored: not exhaustive, and
		// reported, but it is a harness failure, not a property violation
		c.Capped("worker failed: " + firstLine(e))
		fmt.Fprintln(os.Stderr, e)
	}
	total := map[string]*sched.Stats{}
	seen := map[string]bool{}
	flaky := 0
	nscen := 0
	for _, r := range results {
		for name, st := range r.Stats {
			t := total[name]
			if t == nil {
				t = &sched.Stats{}
				total[name] = t
			}
			mergeStats(t, st)
		}
		for k, v := range r.Outcomes {
			for i := int64(0); i < v && i < 1; i++ {
				c.Outcome(k)
			}
			c.State(k)
		}
		for _, sm := range r.Samples {
			c.Sample(sm)
		}
		flaky += r.Flaky
		nscen += r.Scenarios
		for _, f := range r.Findings {
			key := f.Scenario + "|" + f.Class
			if seen[key] {
				continue
			}
			seen[key] = true
			c.Violation(f.Class, map[string]any{"scenario": f.Scenario, "detail": f.Detail, "schedule": f.Schedule, "reproduced": fmt.Sprintf("%d/5", f.Repro)})
		}
	}
	per := map[string]any{}
	var names []string
	for n := range total {
		names = append(names, n)
	}
	sort.Strings(names)
	for _, n := range names {
		st := total[n]
		per[n] = st
		c.Eval(int(st.Executions))
		c.TraceValidated(int(st.Executions))
		c.Transition(int(st.Points))
		if st.Stopped {
			c.Capped("scenario " + n + ": search stopped by budget")
		}
		if st.Horizons > 0 {
			c.Capped(fmt.Sprintf("scenario %s: %d executions cut at the point horizon", n, st.Horizons))
		}
		if st.Executions > 1 {
			c.Nontrivial(n)
		}
	}
	c.Set("scenarios", per)
	c.Set("scenario_runs", nscen)
	c.Set("workers", nw)
	if flaky > 0 {
		c.Set("unreproducible_verdicts_discarded", flaky)
		c.Capped(fmt.Sprintf("%d verdict(s) did not reproduce 5/5 from their schedule and were discarded (harness nondeterminism)", flaky))
	}
}

func firstLine(s string) string {
	if i := strings.IndexByte(s, '\n'); i >= 0 {
		return s[:i]
	}
	return s
}

func mergeStats(t *sched.Stats, o sched.Stats) {
	t.Executions += o.Executions
	t.Points += o.Points
	if o.MaxPoints > t.MaxPoints {
		t.MaxPoints = o.MaxPoints
	}
	if o.MaxGs > t.MaxGs {
		t.MaxGs = o.MaxGs
	}
	if t.ByDeviation == nil {
		t.ByDeviation = map[int]int64{}
	}
	for k, v := range o.ByDeviation {
		t.ByDeviation[k] += v
	}
	t.Deadlocks += o.Deadlocks
	t.Panics += o.Panics
	t.Horizons += o.Horizons
	t.Stopped = t.Stopped || o.Stopped
}

func runWorkers(n int) (out []result, errs []string) {
	var mu sync.Mutex
	var wg sync.WaitGroup
	for i := 0; i < n; i++ {
		wg.Add(1)
		go func(i int) {
			defer wg.Done()
			cmd := exec.Command(os.Args[0], os.Args[1:]...)
			cmd.Env = append(os.Environ(), fmt.Sprintf("VERIF_SHARD=%d/%d", i, n), "GOMAXPROCS=2")
			b, err := cmd.Output()
			mu.Lock()
			defer mu.Unlock()
			var r result
			if jerr := json.Unmarshal(lastLine(b), &r); jerr != nil {
				tail := ""
				if ee, ok := err.(*exec.ExitError); ok {
					tail = string(ee.Stderr)
					if len(tail) > 4000 {
						tail = tail[len(tail)-4000:]
					}
				}
				o := string(b)
				if len(o) > 1000 {
					o = o[len(o)-1000:]
				}
				errs = append(errs, fmt.Sprintf("worker %d/%d: %v (%v)\nstdout tail: %s\nstderr tail: %s", i, n, err, jerr, o, tail))
				return
			}
			out = append(out, r)
		}(i)
	}
	wg.Wait()
	return
}

func lastLine(b []byte) []byte {
	b = []byte(strings.TrimRight(string(b), "\r\n"))
	if i := strings.LastIndexByte(string(b), '\n'); i >= 0 {
		return b[i+1:]
	}
	return b
}

// replay re-runs the schedule stored in a replay file and reports whether the same
// violation class recurs.
func replay(c *vf.Ctx, scs []Scenario) {
	det, _ := c.Replay["detail"].(map[string]any)
	name, _ := det["scenario"].(string)
	var sch []int
	if l, ok := det["schedule"].([]any); ok {
		for _, v := range l {
			f, _ := v.(float64)
			sch = append(sch, int(f))
		}
	}
	want, _ := c.Replay["class"].(string)
	for i := range scs {
		if scs[i].Name != name {
			continue
		}
		x, o := runOne(&scs[i], sch)
		class, detail := judge(&scs[i], x, o)
		c.Eval(1)
		fmt.Printf("replay %s: class=%q (recorded %q)\n  %s\n", name, class, want, detail)
		if class != "" {
			c.Violation(class, map[string]any{"scenario": name, "detail": detail, "schedule": sch})
		}
		return
	}
	fmt.Println("replay: scenario not found:", name)
}

// racePass runs every scenario body free-running (the package is NOT instrumented in
// this build, so goroutines are scheduled by the Go runtime) a number of times; the
// binary is built with -race, and any report goes to stderr. This is sampling and never
// decides a property: it is the side condition under which scheduling points at
// synchronisation operations are sufficient.
func racePass(scs []Scenario, iters string) {
	var n int
	fmt.Sscanf(iters, "%d", &n)
	ran, hung := 0, 0
	for i := range scs {
		sc := &scs[i]
		for k := 0; k < n; k++ {
			done := make(chan struct{})
			go func() {
				defer func() { recover(); close(done) }()
				sc.Body()
			}()
			select {
			case <-done:
				ran++
			case <-time.After(5 * time.Second):
				hung++ // e.g. a scenario that deadlocks on the known finding; abandon it
			}
		}
	}
	fmt.Printf("race pass: %d scenario runs completed, %d abandoned after 5s\n", ran, hung)
}
