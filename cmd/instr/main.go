// instr: rewrite a package's concurrency constructs into verif/sched calls and emit an overlay.
package main

import (
	"bytes"
	"encoding/json"
	"fmt"
	"go/ast"
	"go/build"
	"go/format"
	"go/importer"
	"go/parser"
	"go/token"
	"go/types"
	"os"
	"path/filepath"
	"strconv"
	"strings"
)

var fset = token.NewFileSet()
var info *types.Info
var tmpN int

func tmp(p string) *ast.Ident { tmpN++; return ast.NewIdent(fmt.Sprintf("_vs%s%d", p, tmpN)) }

func sel(x, s string) *ast.SelectorExpr {
	return &ast.SelectorExpr{X: ast.NewIdent(x), Sel: ast.NewIdent(s)}
}
func call(f ast.Expr, a ...ast.Expr) *ast.CallExpr { return &ast.CallExpr{Fun: f, Args: a} }

func isChan(e ast.Expr) bool {
	t := info.TypeOf(e)
	if t == nil {
		return false
	}
	_, ok := t.Underlying().(*types.Chan)
	return ok
}

// rewriteExpr rewrites receive expressions inside e.
func rewriteExpr(e ast.Expr) ast.Expr {
	if e == nil {
		return nil
	}
	var out ast.Expr = e
	ast.Inspect(e, func(n ast.Node) bool { return true })
	switch x := e.(type) {
	case *ast.UnaryExpr:
		x.X = rewriteExpr(x.X)
		if x.Op == token.ARROW {
			return call(sel("vsched", "Recv"), x.X)
		}
	case *ast.CallExpr:
		x.Fun = rewriteExpr(x.Fun)
		for i := range x.Args {
			x.Args[i] = rewriteExpr(x.Args[i])
		}
		if id, ok := x.Fun.(*ast.Ident); ok && id.Name == "verifMark" && len(x.Args) == 0 {
			return call(sel("vsched", "Mark"))
		}
		if id, ok := x.Fun.(*ast.Ident); ok && id.Name == "verifWaitIdle" && len(x.Args) == 0 {
			return call(sel("vsched", "WaitIdle"))
		}
		if id, ok := x.Fun.(*ast.Ident); ok && id.Name == "close" && len(x.Args) == 1 {
			if _, isBuiltin := info.Uses[id].(*types.Builtin); isBuiltin {
				return call(sel("vsched", "Close"), x.Args[0])
			}
		}
	case *ast.ParenExpr:
		x.X = rewriteExpr(x.X)
	case *ast.BinaryExpr:
		x.X, x.Y = rewriteExpr(x.X), rewriteExpr(x.Y)
	case *ast.SelectorExpr:
		x.X = rewriteExpr(x.X)
	case *ast.IndexExpr:
		x.X, x.Index = rewriteExpr(x.X), rewriteExpr(x.Index)
	case *ast.SliceExpr:
		x.X, x.Low, x.High, x.Max = rewriteExpr(x.X), rewriteExpr(x.Low), rewriteExpr(x.High), rewriteExpr(x.Max)
	case *ast.StarExpr:
		x.X = rewriteExpr(x.X)
	case *ast.TypeAssertExpr:
		x.X = rewriteExpr(x.X)
	case *ast.KeyValueExpr:
		x.Value = rewriteExpr(x.Value)
	case *ast.CompositeLit:
		for i := range x.Elts {
			x.Elts[i] = rewriteExpr(x.Elts[i])
		}
	case *ast.FuncLit:
		rewriteBlock(x.Body)
	}
	return out
}

func rewriteBlock(b *ast.BlockStmt) {
	if b == nil {
		return
	}
	for i := range b.List {
		b.List[i] = rewriteStmt(b.List[i])
	}
}

func rewriteStmts(l []ast.Stmt) {
	for i := range l {
		l[i] = rewriteStmt(l[i])
	}
}

func rewriteStmt(s ast.Stmt) ast.Stmt {
	switch x := s.(type) {
	case nil:
		return nil
	case *ast.BlockStmt:
		rewriteBlock(x)
	case *ast.ExprStmt:
		x.X = rewriteExpr(x.X)
	case *ast.SendStmt:
		return &ast.ExprStmt{X: call(call(sel("vsched", "SendTo"), rewriteExpr(x.Chan)), rewriteExpr(x.Value))}
	case *ast.AssignStmt:
		if len(x.Lhs) == 2 && len(x.Rhs) == 1 {
			if u, ok := x.Rhs[0].(*ast.UnaryExpr); ok && u.Op == token.ARROW {
				x.Rhs[0] = call(sel("vsched", "Recv2"), rewriteExpr(u.X))
				return x
			}
			if p, ok := x.Rhs[0].(*ast.ParenExpr); ok {
				if u, ok := p.X.(*ast.UnaryExpr); ok && u.Op == token.ARROW {
					x.Rhs[0] = call(sel("vsched", "Recv2"), rewriteExpr(u.X))
					return x
				}
			}
		}
		for i := range x.Rhs {
			x.Rhs[i] = rewriteExpr(x.Rhs[i])
		}
		for i := range x.Lhs {
			x.Lhs[i] = rewriteExpr(x.Lhs[i])
		}
	case *ast.GoStmt:
		// evaluate function value and args now, run call in scheduler goroutine
		var pre []ast.Stmt
		c := x.Call
		if _, isLit := c.Fun.(*ast.FuncLit); isLit {
			rewriteExpr(c.Fun)
		} else if se, ok := c.Fun.(*ast.SelectorExpr); ok {
			// method value / package func: evaluate receiver if it's not a plain identifier chain
			se.X = rewriteExpr(se.X)
		} else {
			c.Fun = rewriteExpr(c.Fun)
		}
		for i, a := range c.Args {
			a = rewriteExpr(a)
			switch a.(type) {
			case *ast.BasicLit, *ast.Ident:
				c.Args[i] = a
				if id, ok := a.(*ast.Ident); !ok || id.Name == "nil" || id.Name == "true" || id.Name == "false" {
					continue
				}
			}
			t := tmp("a")
			pre = append(pre, &ast.AssignStmt{Lhs: []ast.Expr{t}, Tok: token.DEFINE, Rhs: []ast.Expr{a}})
			c.Args[i] = t
		}
		g := &ast.ExprStmt{X: call(sel("vsched", "Go"), &ast.FuncLit{
			Type: &ast.FuncType{Params: &ast.FieldList{}},
			Body: &ast.BlockStmt{List: []ast.Stmt{&ast.ExprStmt{X: c}}},
		})}
		if len(pre) == 0 {
			return g
		}
		return &ast.BlockStmt{List: append(pre, g)}
	case *ast.DeferStmt:
		if c, ok := rewriteExpr(x.Call).(*ast.CallExpr); ok {
			x.Call = c
		}
	case *ast.ReturnStmt:
		for i := range x.Results {
			x.Results[i] = rewriteExpr(x.Results[i])
		}
	case *ast.IfStmt:
		x.Init = rewriteStmt(x.Init)
		x.Cond = rewriteExpr(x.Cond)
		rewriteBlock(x.Body)
		x.Else = rewriteStmt(x.Else)
	case *ast.ForStmt:
		x.Init = rewriteStmt(x.Init)
		x.Cond = rewriteExpr(x.Cond)
		x.Post = rewriteStmt(x.Post)
		rewriteBlock(x.Body)
	case *ast.RangeStmt:
		if isChan(x.X) {
			chv := tmp("ch")
			okv := tmp("ok")
			var key ast.Expr = ast.NewIdent("_")
			tok := token.DEFINE
			if x.Key != nil {
				key = x.Key
				tok = x.Tok
			}
			recv := &ast.AssignStmt{Lhs: []ast.Expr{key, okv}, Tok: token.DEFINE, Rhs: []ast.Expr{call(sel("vsched", "Recv2"), chv)}}
			if tok == token.ASSIGN {
				// v = range ch : need separate ok decl
				recv = &ast.AssignStmt{Lhs: []ast.Expr{key, okv}, Tok: token.ASSIGN, Rhs: []ast.Expr{call(sel("vsched", "Recv2"), chv)}}
			}
			rewriteBlock(x.Body)
			body := []ast.Stmt{}
			if tok == token.ASSIGN {
				body = append(body, &ast.DeclStmt{Decl: &ast.GenDecl{Tok: token.VAR, Specs: []ast.Spec{&ast.ValueSpec{Names: []*ast.Ident{okv}, Type: ast.NewIdent("bool")}}}})
			}
			body = append(body, recv, &ast.IfStmt{Cond: &ast.UnaryExpr{Op: token.NOT, X: okv}, Body: &ast.BlockStmt{List: []ast.Stmt{&ast.BranchStmt{Tok: token.BREAK}}}})
			body = append(body, x.Body.List...)
			return &ast.ForStmt{
				Init: &ast.AssignStmt{Lhs: []ast.Expr{chv}, Tok: token.DEFINE, Rhs: []ast.Expr{rewriteExpr(x.X)}},
				Body: &ast.BlockStmt{List: body},
			}
		}
		x.X = rewriteExpr(x.X)
		rewriteBlock(x.Body)
	case *ast.SwitchStmt:
		x.Init = rewriteStmt(x.Init)
		x.Tag = rewriteExpr(x.Tag)
		rewriteBlock(x.Body)
	case *ast.TypeSwitchStmt:
		x.Init = rewriteStmt(x.Init)
		x.Assign = rewriteStmt(x.Assign)
		rewriteBlock(x.Body)
	case *ast.CaseClause:
		for i := range x.List {
			x.List[i] = rewriteExpr(x.List[i])
		}
		rewriteStmts(x.Body)
	case *ast.LabeledStmt:
		x.Stmt = rewriteStmt(x.Stmt)
	case *ast.DeclStmt:
		if gd, ok := x.Decl.(*ast.GenDecl); ok {
			for _, sp := range gd.Specs {
				if vs, ok := sp.(*ast.ValueSpec); ok {
					for i := range vs.Values {
						vs.Values[i] = rewriteExpr(vs.Values[i])
					}
				}
			}
		}
	case *ast.SelectStmt:
		return rewriteSelect(x)
	case *ast.IncDecStmt, *ast.BranchStmt, *ast.EmptyStmt:
	default:
		panic(fmt.Sprintf("unhandled stmt %T at %v", s, fset.Position(s.Pos())))
	}
	return s
}

func rewriteSelect(x *ast.SelectStmt) ast.Stmt {
	hasDef := "false"
	var cases []ast.Expr
	var clauses []ast.Stmt
	tokv, idxv := tmp("t"), tmp("i")
	n := 0
	for _, cl := range x.Body.List {
		cc := cl.(*ast.CommClause)
		rewriteStmts(cc.Body)
		if cc.Comm == nil {
			hasDef = "true"
			clauses = append(clauses, &ast.CaseClause{List: []ast.Expr{&ast.BasicLit{Kind: token.INT, Value: "-1"}}, Body: cc.Body})
			continue
		}
		var real ast.Stmt
		switch c := cc.Comm.(type) {
		case *ast.SendStmt:
			c.Chan, c.Value = rewriteExpr(c.Chan), rewriteExpr(c.Value)
			cases = append(cases, call(sel("vsched", "SendCase"), c.Chan))
			real = c
		case *ast.ExprStmt:
			u := c.X.(*ast.UnaryExpr)
			u.X = rewriteExpr(u.X)
			cases = append(cases, call(sel("vsched", "RecvCase"), u.X))
			real = c
		case *ast.AssignStmt:
			u := c.Rhs[0].(*ast.UnaryExpr)
			u.X = rewriteExpr(u.X)
			cases = append(cases, call(sel("vsched", "RecvCase"), u.X))
			real = c
		}
		body := append([]ast.Stmt{real, &ast.ExprStmt{X: call(&ast.SelectorExpr{X: tokv, Sel: ast.NewIdent("Settle")})}}, cc.Body...)
		clauses = append(clauses, &ast.CaseClause{List: []ast.Expr{&ast.BasicLit{Kind: token.INT, Value: strconv.Itoa(n)}}, Body: body})
		n++
	}
	if hasDef == "false" {
		clauses = append(clauses, &ast.CaseClause{Body: []ast.Stmt{&ast.ExprStmt{X: call(ast.NewIdent("panic"), &ast.BasicLit{Kind: token.STRING, Value: `"vsched: bad select index"`})}}})
	}
	args := append([]ast.Expr{ast.NewIdent(hasDef)}, cases...)
	sw := &ast.SwitchStmt{
		Init: &ast.AssignStmt{Lhs: []ast.Expr{tokv, idxv}, Tok: token.DEFINE, Rhs: []ast.Expr{call(sel("vsched", "Select"), args...)}},
		Tag:  idxv,
		Body: &ast.BlockStmt{List: clauses},
	}
	if !selectFallback {
		return sw
	}
	// Outside a scheduler run (instrumented package called from an ordinary grid check)
	// the original select statement is executed; its clauses share their (already
	// rewritten) bodies with the switch above.
	var orig []ast.Stmt
	for _, cl := range x.Body.List {
		cc := cl.(*ast.CommClause)
		orig = append(orig, &ast.CommClause{Comm: cc.Comm, Body: cc.Body})
	}
	return &ast.IfStmt{
		Cond: call(sel("vsched", "Active")),
		Body: &ast.BlockStmt{List: []ast.Stmt{sw}},
		Else: &ast.BlockStmt{List: []ast.Stmt{&ast.SelectStmt{Body: &ast.BlockStmt{List: orig}}}},
	}
}

// selectFallback (flag -selectfallback) wraps every rewritten select in
// `if vsched.Active() { ... } else { original select }`. Off by default: a labelled
// select (`L: select { ... break L ... }`) cannot be wrapped in an if statement.
var selectFallback bool

func main() {
	// usage: instr -repo DIR -out DIR [-add SRCDIR] pkg...
	// Every listed package directory (relative to -repo) is parsed with the build tag
	// "verif", rewritten, and written to -out/<pkg>/; overlay.json maps the original
	// paths to the rewritten copies. Files found in -add/<pkg>/*.go (harness code that
	// lives outside the repository) are instrumented as part of the package and added
	// to it through the overlay.
	var repo, outDir string
	var addDirs []string
	plain := false
	var pkgs []string
	args := os.Args[1:]
	for i := 0; i < len(args); i++ {
		switch args[i] {
		case "-repo":
			repo = args[i+1]
			i++
		case "-out":
			outDir = args[i+1]
			i++
		case "-plain":
			// only add the harness files to the packages, without rewriting anything
			// (used by the free-running -race pass)
			plain = true
		case "-add":
			addDirs = append(addDirs, args[i+1])
			i++
		case "-selectfallback":
			selectFallback = true
		default:
			pkgs = append(pkgs, args[i])
		}
	}
	if repo == "" || outDir == "" || len(pkgs) == 0 {
		fmt.Fprintln(os.Stderr, "usage: instr -repo DIR -out DIR [-add DIR] pkg...")
		os.Exit(2)
	}
	overlay := map[string]string{}
	total := 0
	// the source importer resolves golang.org/x/crypto/... relative to the module of the cwd
	if err := os.Chdir(repo); err != nil {
		panic(err)
	}
	for _, pkg := range pkgs {
		if plain {
			for _, addDir := range addDirs {
				extra, _ := filepath.Glob(filepath.Join(addDir, pkg, "*.go"))
				for _, f := range extra {
					overlay[filepath.Join(repo, pkg, filepath.Base(f))] = f
					total++
				}
			}
			continue
		}
		total += instrumentPackage(repo, pkg, outDir, addDirs, overlay)
	}
	j, _ := json.MarshalIndent(map[string]any{"Replace": overlay}, "", " ")
	os.MkdirAll(outDir, 0o755)
	writeIfChanged(filepath.Join(outDir, "overlay.json"), j)
	fmt.Fprintln(os.Stderr, "instrumented", total, "files of", len(pkgs), "package(s)")
}

func instrumentPackage(repo, pkg, outRoot string, addDirs []string, overlay map[string]string) int {
	dir := filepath.Join(repo, pkg)
	outDir := filepath.Join(outRoot, pkg)
	ctx := build.Default
	ctx.BuildTags = []string{"verif"}
	bp, err := ctx.ImportDir(dir, 0)
	if err != nil {
		panic(err)
	}
	type src struct{ path, name string }
	var srcs []src
	for _, f := range bp.GoFiles {
		srcs = append(srcs, src{filepath.Join(dir, f), f})
	}
	for _, addDir := range addDirs {
		extra, _ := filepath.Glob(filepath.Join(addDir, pkg, "*.go"))
		for _, f := range extra {
			srcs = append(srcs, src{f, filepath.Base(f)})
		}
	}
	var files []*ast.File
	for _, f := range srcs {
		af, err := parser.ParseFile(fset, f.path, nil, parser.ParseComments)
		if err != nil {
			panic(err)
		}
		files = append(files, af)
	}
	info = &types.Info{Types: map[ast.Expr]types.TypeAndValue{}, Uses: map[*ast.Ident]types.Object{}, Defs: map[*ast.Ident]types.Object{}}
	nerr := 0
	conf := types.Config{Importer: importer.ForCompiler(fset, "source", nil), Error: func(err error) {
		nerr++
		if nerr <= 20 {
			fmt.Fprintln(os.Stderr, "typecheck:", err)
		}
	}}
	conf.Check("golang.org/x/crypto/"+pkg, fset, files, info)
	if nerr > 0 {
		// the tree does not type-check: let the compiler report it on the original sources
		fmt.Fprintln(os.Stderr, "instr: package", pkg, "has type errors; not instrumenting")
		os.Exit(3)
	}
	os.MkdirAll(outDir, 0o755)
	for i, af := range files {
		for _, im := range af.Imports {
			p, _ := strconv.Unquote(im.Path.Value)
			switch p {
			case "sync":
				im.Path.Value = `"verif/vsync"`
				if im.Name == nil {
					im.Name = ast.NewIdent("sync")
				}
			case "sync/atomic":
				im.Path.Value = `"verif/vatomic"`
				if im.Name == nil {
					im.Name = ast.NewIdent("atomic")
				}
			}
		}
		for _, d := range af.Decls {
			if fd, ok := d.(*ast.FuncDecl); ok && fd.Body != nil {
				rewriteBlock(fd.Body)
			}
			if gd, ok := d.(*ast.GenDecl); ok {
				for _, sp := range gd.Specs {
					if vs, ok := sp.(*ast.ValueSpec); ok {
						for i := range vs.Values {
							vs.Values[i] = rewriteExpr(vs.Values[i])
						}
					}
				}
			}
		}
		var buf bytes.Buffer
		if err := format.Node(&buf, fset, af); err != nil {
			panic(err)
		}
		s := buf.String()
		if strings.Contains(s, "vsched.") && !strings.Contains(s, `vsched "verif/sched"`) {
			idx := strings.Index(s, "\npackage ")
			if strings.HasPrefix(s, "package ") {
				idx = -1
			}
			end := strings.Index(s[idx+1:], "\n") + idx + 1
			s = s[:end] + "\nimport vsched \"verif/sched\"\n" + s[end:]
		}
		out := filepath.Join(outDir, srcs[i].name)
		writeIfChanged(out, []byte(s))
		overlay[filepath.Join(dir, srcs[i].name)] = out
	}
	return len(files)
}

func writeIfChanged(path string, b []byte) {
	if old, err := os.ReadFile(path); err == nil && bytes.Equal(old, b) {
		return
	}
	os.WriteFile(path, b, 0o644)
}
