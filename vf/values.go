package vf

import (
	"crypto/sha256"
	"encoding/binary"
	"fmt"
)

// Bytes returns n deterministic pseudo-random bytes derived from (seed, label, i).
// The seed changes values only; the enumerated shape space of every check is the
// same for every seed.
func (c *Ctx) Bytes(label string, i, n int) []byte {
	return DetBytes(fmt.Sprintf("%d|%s|%d", c.Seed, label, i), n)
}

// DetBytes expands label into n bytes with SHA-256 in counter mode.
func DetBytes(label string, n int) []byte {
	out := make([]byte, 0, n+32)
	var ctr [8]byte
	for k := uint64(0); len(out) < n; k++ {
		binary.BigEndian.PutUint64(ctr[:], k)
		h := sha256.New()
		h.Write(ctr[:])
		h.Write([]byte(label))
		out = h.Sum(out)
	}
	return out[:n]
}

// ValueClasses returns the value alphabet for a byte string of length n: all-zero,
// all-0xFF, 0x80 0x00.., ascending bytes, plus v seeded pseudo-random classes.
func (c *Ctx) ValueClasses(label string, n, v int) [][]byte {
	var out [][]byte
	z := make([]byte, n)
	out = append(out, z)
	f := make([]byte, n)
	for i := range f {
		f[i] = 0xff
	}
	out = append(out, f)
	h := make([]byte, n)
	if n > 0 {
		h[0] = 0x80
	}
	out = append(out, h)
	a := make([]byte, n)
	for i := range a {
		a[i] = byte(i)
	}
	out = append(out, a)
	for i := 0; i < v; i++ {
		out = append(out, c.Bytes(label, i, n))
	}
	return out
}

// V is the number of seeded value classes for the tier (2 quick, 8 thorough).
func (c *Ctx) V() int {
	if c.Thorough {
		return 8
	}
	return 2
}

// Rand is a deterministic io.Reader (SHA-256 counter mode) for code that takes a
// randomness source.
type Rand struct {
	label string
	ctr   uint64
	buf   []byte
}

func NewRand(label string) *Rand { return &Rand{label: label} }

func (r *Rand) Read(p []byte) (int, error) {
	n := len(p)
	for len(p) > 0 {
		if len(r.buf) == 0 {
			var c [8]byte
			binary.BigEndian.PutUint64(c[:], r.ctr)
			r.ctr++
			h := sha256.New()
			h.Write([]byte("rand|" + r.label))
			h.Write(c[:])
			r.buf = h.Sum(nil)
		}
		k := copy(p, r.buf)
		p = p[k:]
		r.buf = r.buf[k:]
	}
	return n, nil
}

// Hex8 abbreviates a byte string for samples and violation details.
func Hex8(b []byte) string {
	if len(b) <= 12 {
		return fmt.Sprintf("%x", b)
	}
	return fmt.Sprintf("%x..%x(len %d)", b[:6], b[len(b)-4:], len(b))
}
