// Package vf is the shared front end of every check in /verif: it parses the
// command line (quick | thorough | --replay <file>), counts what a run covered,
// matches violations against /verif/known_findings.txt, writes the replay
// artefact and the evidence file, and sets the exit status.
//
// A check is a main package:
//
//	func main() { vf.Main("C13", vf.Exploration, run) }
//	func run(c *vf.Ctx) { ... c.Eval(1) ... c.Violation(class, detail) ... }
package vf

import (
	"crypto/sha256"
	"encoding/hex"
	"encoding/json"
	"fmt"
	"os"
	"path/filepath"
	"runtime"
	"runtime/debug"
	"sort"
	"strconv"
	"strings"
	"sync"
	"sync/atomic"
	"time"
)

// Evidence levels (EVIDENCE.schema.json).
const (
	Exploration      = "exploration"
	FaultEnumeration = "fault_enumeration"
	ModelChecking    = "model_checking"
)

// Root is the /verif directory (override with VERIF_ROOT for scratch copies).
func Root() string {
	if r := os.Getenv("VERIF_ROOT"); r != "" {
		return r
	}
	return "/verif"
}

// RepoDir is the golang/crypto tree the check was built against.
func RepoDir() string {
	if r := os.Getenv("VERIF_REPO"); r != "" {
		return r
	}
	return "/repo"
}

type violation struct {
	Class  string `json:"class"`
	Detail any    `json:"detail"`
	Replay string `json:"replay,omitempty"`
	Known  bool   `json:"known"`
}

// Ctx accumulates coverage for one run. All methods are safe for concurrent use.
type Ctx struct {
	ID       string
	Tier     string // "quick" | "thorough"
	Thorough bool
	Seed     int64
	Level    string
	Replay   map[string]any // non-nil when invoked with --replay

	mu          sync.Mutex
	evals       atomic.Int64
	transitions atomic.Int64
	tracesImpl  atomic.Int64
	nontriv     map[string]struct{}
	states      map[string]struct{}
	outcomes    map[string]int64
	samples     []any
	maxSamples  int
	rule        string
	extra       map[string]any
	assume      []string
	viol        map[string]*violation // by class
	violOrder   []string
	exhaustive  bool
	capped      []string
	start       time.Time
	deadline    time.Time
	known       map[string]string // class -> text
}

// Main runs a check and never returns.
func Main(id, level string, run func(c *Ctx)) {
	c := &Ctx{ID: id, Level: level, Tier: "quick", nontriv: map[string]struct{}{}, states: map[string]struct{}{},
		outcomes: map[string]int64{}, extra: map[string]any{}, viol: map[string]*violation{}, maxSamples: 6,
		exhaustive: true, start: time.Now()}
	args := os.Args[1:]
	if t := os.Getenv("VERIF_TIER"); t == "thorough" || t == "quick" {
		c.Tier = t
	}
	for i := 0; i < len(args); i++ {
		switch args[i] {
		case "quick", "thorough":
			c.Tier = args[i]
		case "--replay":
			if i+1 >= len(args) {
				fmt.Fprintln(os.Stderr, "--replay needs a file")
				os.Exit(2)
			}
			b, err := os.ReadFile(args[i+1])
			if err != nil {
				fmt.Fprintln(os.Stderr, err)
				os.Exit(2)
			}
			if err := json.Unmarshal(b, &c.Replay); err != nil {
				fmt.Fprintln(os.Stderr, err)
				os.Exit(2)
			}
			if t, ok := c.Replay["tier"].(string); ok {
				c.Tier = t
			}
			i++
		}
	}
	c.Thorough = c.Tier == "thorough"
	if s := os.Getenv("VERIF_SEED"); s != "" {
		c.Seed, _ = strconv.ParseInt(s, 10, 64)
	}
	if c.Replay != nil {
		if s, ok := c.Replay["seed"].(float64); ok {
			c.Seed = int64(s)
		}
	}
	// Internal wall-clock budget: never an oracle. When it expires, loops that poll
	// Expired() stop, the run is reported exhaustive:false and still exits 0.
	budget := 240 * time.Second
	if c.Thorough {
		budget = 40 * time.Minute
	}
	if s := os.Getenv("VERIF_BUDGET_S"); s != "" {
		if n, err := strconv.Atoi(s); err == nil {
			budget = time.Duration(n) * time.Second
		}
	}
	c.deadline = c.start.Add(budget)
	c.known = loadKnown(id)

	func() {
		defer func() {
			if r := recover(); r != nil {
				c.Violation("harness-panic", map[string]any{"panic": fmt.Sprint(r), "stack": string(debug.Stack())})
			}
		}()
		run(c)
	}()
	os.Exit(c.finish())
}

// Eval counts n evaluated cases (executions / grid points / inputs).
func (c *Ctx) Eval(n int) { c.evals.Add(int64(n)) }

// Transition counts n model-checking transitions (operation applications on the real code).
func (c *Ctx) Transition(n int) { c.transitions.Add(int64(n)) }

// TraceValidated counts n complete traces/executions that ran on the real implementation
// and were compared with the reference model.
func (c *Ctx) TraceValidated(n int) { c.tracesImpl.Add(int64(n)) }

// Nontrivial records a distinct non-trivial case by key (see Rule).
func (c *Ctx) Nontrivial(key string) {
	c.mu.Lock()
	c.nontriv[key] = struct{}{}
	c.mu.Unlock()
}

// State records a distinct state key; it reports whether the key is new.
func (c *Ctx) State(key string) bool {
	c.mu.Lock()
	_, seen := c.states[key]
	if !seen {
		c.states[key] = struct{}{}
	}
	c.mu.Unlock()
	return !seen
}

// Outcome tallies a distinct observed outcome (vacuity guard: one outcome from many
// executions means nothing collided).
func (c *Ctx) Outcome(key string) {
	c.mu.Lock()
	c.outcomes[key]++
	c.mu.Unlock()
}

// Sample keeps the first few cases written out.
func (c *Ctx) Sample(v any) {
	c.mu.Lock()
	if len(c.samples) < c.maxSamples {
		c.samples = append(c.samples, v)
	}
	c.mu.Unlock()
}

// WantSample reports whether another sample would be kept (avoid formatting cost).
func (c *Ctx) WantSample() bool {
	c.mu.Lock()
	defer c.mu.Unlock()
	return len(c.samples) < c.maxSamples
}

func (c *Ctx) Rule(s string)       { c.mu.Lock(); c.rule = s; c.mu.Unlock() }
func (c *Ctx) Assume(s string)     { c.mu.Lock(); c.assume = append(c.assume, s); c.mu.Unlock() }
func (c *Ctx) Set(k string, v any) { c.mu.Lock(); c.extra[k] = v; c.mu.Unlock() }
func (c *Ctx) Add(k string, n int64) {
	c.mu.Lock()
	a, _ := c.extra[k].(int64)
	c.extra[k] = a + n
	c.mu.Unlock()
}

// Expired reports whether the internal budget is used up; the first call that
// returns true marks the run as not exhaustive.
func (c *Ctx) Expired() bool {
	if time.Now().Before(c.deadline) {
		return false
	}
	c.Capped("wall-clock budget reached")
	return true
}

// Capped marks the run as not exhaustive, with the reason.
func (c *Ctx) Capped(why string) {
	c.mu.Lock()
	c.exhaustive = false
	for _, w := range c.capped {
		if w == why {
			c.mu.Unlock()
			return
		}
	}
	c.capped = append(c.capped, why)
	c.mu.Unlock()
}

// Violation records a property violation. class identifies the failing input / call
// site / history coarsely enough to be listed in known_findings.txt and precisely
// enough that a different violation of the same property has a different class.
// Only the first violation of each class is kept (with its detail).
func (c *Ctx) Violation(class string, detail any) {
	c.mu.Lock()
	defer c.mu.Unlock()
	if _, ok := c.viol[class]; ok {
		return
	}
	_, known := c.known[class]
	c.viol[class] = &violation{Class: class, Detail: detail, Known: known}
	c.violOrder = append(c.violOrder, class)
}

// Violations returns the number of distinct violation classes seen so far.
func (c *Ctx) Violations() int { c.mu.Lock(); defer c.mu.Unlock(); return len(c.viol) }

// Protect runs f and converts a panic into (true, value, stack).
func Protect(f func()) (panicked bool, val any, stack string) {
	defer func() {
		if r := recover(); r != nil {
			panicked, val, stack = true, r, string(debug.Stack())
		}
	}()
	f()
	return
}

// Panics reports whether f panics.
func Panics(f func()) bool { p, _, _ := Protect(f); return p }

// ParallelFor runs f(i) for i in [0,n) on all cores; it stops handing out work once
// the budget has expired.
func (c *Ctx) ParallelFor(n int, f func(i int)) {
	w := runtime.NumCPU()
	if w > n {
		w = n
	}
	if w < 1 {
		w = 1
	}
	var next atomic.Int64
	var wg sync.WaitGroup
	for k := 0; k < w; k++ {
		wg.Add(1)
		go func() {
			defer wg.Done()
			for {
				i := int(next.Add(1) - 1)
				if i >= n {
					return
				}
				if c.Expired() {
					return
				}
				f(i)
			}
		}()
	}
	wg.Wait()
}

func loadKnown(id string) map[string]string {
	m := map[string]string{}
	b, err := os.ReadFile(filepath.Join(Root(), "known_findings.txt"))
	if err != nil {
		return m
	}
	for _, ln := range strings.Split(string(b), "\n") {
		ln = strings.TrimSpace(ln)
		// known: property=C41 class=<class> :: free text
		if !strings.HasPrefix(ln, "known: ") {
			continue
		}
		rest := strings.TrimPrefix(ln, "known: ")
		if !strings.HasPrefix(rest, "property="+id+" ") {
			continue
		}
		rest = strings.TrimPrefix(rest, "property="+id+" ")
		if !strings.HasPrefix(rest, "class=") {
			continue
		}
		rest = strings.TrimPrefix(rest, "class=")
		cls, txt, _ := strings.Cut(rest, " :: ")
		m[strings.TrimSpace(cls)] = strings.TrimSpace(txt)
	}
	return m
}

// Abort ends the run now with what has been recorded so far (evidence written, VIOLATION
// lines printed, exit status as usual). For checks whose code under test can be PROVEN not to
// return (see checks/c45: CPU-time-limited probe in a child process): the run cannot complete
// normally because the stuck call never comes back. The run is reported as not exhaustive.
func (c *Ctx) Abort(why string) {
	c.Capped("run aborted: " + why)
	os.Exit(c.finish())
}

func (c *Ctx) finish() int {
	c.mu.Lock()
	defer c.mu.Unlock()
	root := Root()
	unknown := 0
	os.MkdirAll(filepath.Join(root, "replays"), 0o755)
	for _, cls := range c.violOrder {
		v := c.viol[cls]
		if v.Known {
			fmt.Printf("KNOWN-FINDING: property=%s %s :: %s\n", c.ID, cls, c.known[cls])
			continue
		}
		unknown++
		rep := map[string]any{"property": c.ID, "class": cls, "detail": v.Detail, "tier": c.Tier, "seed": c.Seed}
		b, _ := json.MarshalIndent(rep, "", " ")
		h := sha256.Sum256([]byte(cls))
		p := filepath.Join(root, "replays", c.ID+"-"+hex.EncodeToString(h[:6])+".json")
		os.WriteFile(p, b, 0o644)
		v.Replay = p
		fmt.Printf("VIOLATION property=%s replay=%s\n", c.ID, p)
		fmt.Printf("  class: %s\n", cls)
		d, _ := json.Marshal(v.Detail)
		if len(d) > 2000 {
			d = append(d[:2000], "..."...)
		}
		fmt.Printf("  detail: %s\n", d)
	}
	// A known finding that no longer reproduces is worth a note (not an alarm).
	for cls := range c.known {
		if _, ok := c.viol[cls]; !ok && c.Replay == nil {
			fmt.Printf("note: listed finding property=%s class=%s did not occur in this run\n", c.ID, cls)
		}
	}

	cov := map[string]any{}
	for k, v := range c.extra {
		cov[k] = v
	}
	cov["evaluations"] = c.evals.Load()
	cov["distinct_nontrivial"] = len(c.nontriv)
	cov["rule"] = c.rule
	if len(c.samples) == 0 {
		c.samples = append(c.samples, "no sample recorded")
	}
	cov["samples"] = c.samples
	cov["exhaustive"] = c.exhaustive
	if len(c.capped) > 0 {
		cov["caps_hit"] = c.capped
	}
	cov["distinct_outcomes"] = len(c.outcomes)
	if len(c.outcomes) > 0 && len(c.outcomes) <= 40 {
		cov["outcomes"] = c.outcomes
	}
	if c.Level == ModelChecking {
		st := len(c.states)
		cov["states"] = st
		cov["transitions"] = c.transitions.Load()
		cov["traces_validated_against_impl"] = c.tracesImpl.Load()
	}
	var vl []map[string]any
	for _, cls := range c.violOrder {
		v := c.viol[cls]
		vl = append(vl, map[string]any{"class": cls, "known": v.Known, "replay": v.Replay})
	}
	if vl != nil {
		cov["violation_classes"] = vl
	}
	sort.Strings(c.assume)
	ev := map[string]any{
		"property_id": c.ID, "tier": c.Tier, "seed": c.Seed, "level": c.Level, "coverage": cov,
		"assumptions": c.assume, "wall_s": time.Since(c.start).Seconds(), "violations": unknown,
		"known_findings_reported": len(c.violOrder) - unknown,
	}
	if c.assume == nil {
		ev["assumptions"] = []string{}
	}
	if c.Replay == nil {
		os.MkdirAll(filepath.Join(root, "evidence"), 0o755)
		b, _ := json.MarshalIndent(ev, "", " ")
		if err := os.WriteFile(filepath.Join(root, "evidence", c.ID+".json"), append(b, '\n'), 0o644); err != nil {
			fmt.Fprintln(os.Stderr, "evidence:", err)
		}
	}
	fmt.Printf("%s %s: evaluations=%d nontrivial=%d states=%d transitions=%d outcomes=%d exhaustive=%v violations=%d known=%d wall=%.1fs\n",
		c.ID, c.Tier, c.evals.Load(), len(c.nontriv), len(c.states), c.transitions.Load(), len(c.outcomes), c.exhaustive, unknown,
		len(c.violOrder)-unknown, time.Since(c.start).Seconds())
	if unknown > 0 {
		return 1
	}
	return 0
}

// RaceCompanion reads the output of the check's free-running -race companion (checks/cNN/race,
// built and run by bin/check before the check binary; path in VERIF_RACE_REPORT). A data race or
// a panic whose frames lie in one of the given packages, or a line "COMPANION-MISMATCH: ..."
// printed by the companion (a wrong result under concurrent use), is recorded as a violation;
// a companion that could not be built or did not run is only noted (evidence field race_pass).
// The race detector is happens-before based: a report does not depend on which goroutine ran
// first. It is the side condition of the exhaustive part, not part of it.
func (c *Ctx) RaceCompanion(what string, pkgs ...string) {
	path := os.Getenv("VERIF_RACE_REPORT")
	if path == "" {
		c.Set("race_pass", "not run (no companion output)")
		return
	}
	b, err := os.ReadFile(path)
	if err != nil {
		c.Set("race_pass", "not run: "+err.Error())
		return
	}
	out := string(b)
	report := func(marker string) string {
		i := strings.Index(out, marker)
		if i < 0 {
			return ""
		}
		r := out[i:]
		if len(r) > 3000 {
			r = r[:3000]
		}
		return r
	}
	inPkg := false
	for _, p := range pkgs {
		inPkg = inPkg || strings.Contains(out, p)
	}
	switch {
	case strings.Contains(out, "WARNING: DATA RACE") && inPkg:
		c.Set("race_pass", "data race reported")
		c.Violation("data race inside the package when goroutines use "+what+" at the same time (race detector, free-running companion)", map[string]any{"report": report("WARNING: DATA RACE")})
	case strings.Contains(out, "COMPANION-MISMATCH:"):
		c.Set("race_pass", "wrong result under concurrent use")
		c.Violation("wrong result when goroutines use "+what+" at the same time (free-running companion)", map[string]any{"report": report("COMPANION-MISMATCH:")})
	case strings.Contains(out, "panic:") && inPkg:
		c.Set("race_pass", "panic")
		c.Violation("panic when goroutines use "+what+" at the same time (free-running companion)", map[string]any{"report": report("panic:")})
	case strings.Contains(out, "rounds completed"):
		c.Set("race_pass", "ok: "+strings.TrimSpace(out[strings.Index(out, "race companion"):]))
	default:
		first := out
		if len(first) > 300 {
			first = first[:300]
		}
		c.Set("race_pass", "inconclusive: "+first)
	}
}
