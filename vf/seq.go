package vf

import (
	"fmt"
	"strings"
	"sync"
)

// ---------------------------------------------------------------------------
// Sequence mode: breadth-first search over operation sequences. Live crypto
// objects cannot be cloned, so a successor is "replay the shortest path on a
// fresh instance + one more op": Run executes a whole history from scratch.
// ---------------------------------------------------------------------------

// SeqSpec describes a bounded exhaustive exploration of operation histories.
type SeqSpec[Op any] struct {
	Ops   []Op // alphabet, simplest first
	Depth int  // maximum history length
	// Run executes hist on a fresh real object in lock-step with a fresh reference
	// model. It returns a canonical key of the state reached ("" = do not merge: the
	// history itself is the state), stop=true when the history must not be extended
	// (object dead, e.g. after a documented panic), and a non-empty mismatch when the
	// real observation of any step differs from the model's.
	Run  func(hist []Op) (key string, stop bool, mismatch string)
	Name func(Op) string
	// Class maps a mismatching history to the violation class (default: first mismatch text).
	Class    func(hist []Op, mismatch string) string
	Parallel bool
}

// ExploreSeq runs the BFS and records states, transitions, samples and violations.
// It returns the deepest level completed.
func ExploreSeq[Op any](c *Ctx, label string, s SeqSpec[Op]) int {
	type node struct{ hist []Op }
	frontier := []node{{}}
	seen := map[string]bool{}
	var mu sync.Mutex
	name := func(h []Op) string {
		var p []string
		for _, o := range h {
			p = append(p, s.Name(o))
		}
		return strings.Join(p, " ; ")
	}
	done := 0
	for d := 1; d <= s.Depth && len(frontier) > 0; d++ {
		var next []node
		work := func(i int) {
			h0 := frontier[i].hist
			for _, op := range s.Ops {
				h := append(append(make([]Op, 0, len(h0)+1), h0...), op)
				key, stop, mis := s.Run(h)
				c.Transition(1)
				c.Eval(1)
				c.TraceValidated(1)
				if mis != "" {
					cls := label + ": " + mis
					if s.Class != nil {
						cls = s.Class(h, mis)
					}
					c.Violation(cls, map[string]any{"history": name(h), "mismatch": mis})
					continue
				}
				k := key
				if k == "" {
					k = "h:" + name(h)
				}
				mu.Lock()
				dup := seen[k]
				if !dup {
					seen[k] = true
				}
				mu.Unlock()
				if dup {
					continue
				}
				c.State(label + "|" + k)
				if d >= 2 {
					c.Nontrivial(label + "|" + k)
				}
				if c.WantSample() && d == s.Depth {
					c.Sample(map[string]any{"history": name(h), "state_key": key})
				}
				if !stop {
					mu.Lock()
					next = append(next, node{h})
					mu.Unlock()
				}
			}
		}
		if s.Parallel {
			c.ParallelFor(len(frontier), work)
		} else {
			for i := range frontier {
				if c.Expired() {
					break
				}
				work(i)
			}
		}
		if c.Expired() {
			c.Capped(fmt.Sprintf("%s: BFS stopped inside depth %d", label, d))
			break
		}
		done = d
		frontier = next
	}
	c.Set(label+"_depth_completed", done)
	return done
}

// ---------------------------------------------------------------------------
// Environment-answer mode: the code under test calls out (reads a packet, does a
// round trip); at each call the environment picks one answer from a finite menu
// whose entry 0 is the default, well-behaved answer. All executions with at most
// `bound` non-default answers are enumerated (deviation bounding), each run to
// completion.
// ---------------------------------------------------------------------------

// Chooser is handed to one execution; Choose(n) returns the alternative to take
// at this point (from the replayed prefix, else 0).
type Chooser struct {
	prefix []int
	N      []int // alternatives offered at each point
	C      []int // choice taken at each point
}

func (ch *Chooser) Choose(n int) int {
	i := len(ch.C)
	k := 0
	if i < len(ch.prefix) {
		k = ch.prefix[i]
		if k >= n {
			panic(fmt.Sprintf("vf: replay divergence at point %d: choice %d of %d", i, k, n))
		}
	}
	ch.N = append(ch.N, n)
	ch.C = append(ch.C, k)
	return k
}

// Deviations is the number of non-default choices taken so far.
func (ch *Chooser) Deviations() int {
	n := 0
	for _, k := range ch.C {
		if k != 0 {
			n++
		}
	}
	return n
}

// ExploreChoices enumerates every execution of run with at most bound deviations.
// run must be deterministic given the choices. When parallel is true run is called
// from several goroutines at once. It returns the number of executions.
func ExploreChoices(c *Ctx, bound int, parallel bool, run func(ch *Chooser)) int64 {
	var execs int64
	var mu sync.Mutex
	var rec func(prefix []int, depth int) [][]int
	rec = func(prefix []int, depth int) [][]int {
		ch := &Chooser{prefix: prefix}
		run(ch)
		mu.Lock()
		execs++
		mu.Unlock()
		c.Eval(1)
		c.TraceValidated(1)
		var kids [][]int
		dev := 0
		for i := 0; i < len(ch.C); i++ {
			if i >= len(prefix) && dev+1 <= bound {
				for alt := 1; alt < ch.N[i]; alt++ {
					np := append(append(make([]int, 0, i+1), ch.C[:i]...), alt)
					kids = append(kids, np)
				}
			}
			if ch.C[i] != 0 {
				dev++
			}
		}
		return kids
	}
	level := rec(nil, 0)
	for len(level) > 0 {
		if c.Expired() {
			c.Capped("choice exploration stopped by budget")
			break
		}
		var next [][]int
		if parallel {
			var nm sync.Mutex
			c.ParallelFor(len(level), func(i int) {
				k := rec(level[i], 0)
				nm.Lock()
				next = append(next, k...)
				nm.Unlock()
			})
		} else {
			for _, p := range level {
				if c.Expired() {
					break
				}
				next = append(next, rec(p, 0)...)
			}
		}
		level = next
	}
	return execs
}
