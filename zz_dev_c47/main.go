package main

import (
	"crypto/rand"
	"fmt"

	"golang.org/x/crypto/otr"
	"verif/ref/otrref"
)

func try(name string, f func()) {
	defer func() { fmt.Println(name, "->", recover()) }()
	f()
}

func main() {
	var k otr.PrivateKey
	k.Generate(rand.Reader)
	try("FragmentSize=18, Receive(query)", func() {
		c := &otr.Conversation{PrivateKey: &k, FragmentSize: 18}
		c.Receive([]byte("?OTRv2?"))
	})
	try("FragmentSize=19, Receive(query)", func() {
		c := &otr.Conversation{PrivateKey: &k, FragmentSize: 19}
		_, _, _, ts, err := c.Receive([]byte("?OTRv2?"))
		fmt.Println(len(ts), err, string(ts[0]), string(ts[len(ts)-1]))
	})
	try("truncated DH commit, then well-formed DH commit", func() {
		c := &otr.Conversation{PrivateKey: &k}
		_, _, _, _, err := c.Receive([]byte("?OTR:AAIC."))
		fmt.Println("first:", err)
		w := otrref.Encode([]byte{0, 2, 2, 0, 0, 0, 0, 0, 0, 0, 0})
		fmt.Println(string(w))
		c.Receive(w)
	})
}
