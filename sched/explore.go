package sched

import (
	"fmt"
	"os"
)

// Explorer enumerates every execution of Body with at most Bound deviations
// (choices != 0), depth first, stateless (each execution re-runs Body from the
// start following a choice prefix). The bounded search is pure: no partial-order
// pruning is mixed into it.
type Explorer struct {
	Bound int
	// Body runs under the scheduler (goroutine 0). It must build all its state
	// afresh and must be deterministic given the schedule.
	Body func()
	// OnExec is called after every execution, outside the scheduler.
	OnExec func(x *Exec)
	// Shard/NShards restrict the search to the level-1 subtrees whose ordinal is
	// congruent to Shard; the root execution belongs to shard 0.
	Shard, NShards int
	// FromMark restricts branching to scheduling points after the harness's Mark call
	// (executions that never reach the mark are not branched at all).
	FromMark bool
	// Stop, when non-nil and returning true, ends the search early (budget).
	Stop func() bool

	Stats Stats
}

// Stats describes what a search covered.
type Stats struct {
	Executions  int64         `json:"executions"`
	Points      int64         `json:"scheduling_points"`
	MaxPoints   int           `json:"max_points_per_execution"`
	MaxGs       int           `json:"max_goroutines"`
	ByDeviation map[int]int64 `json:"executions_by_deviations"`
	Deadlocks   int64         `json:"deadlocks"`
	Panics      int64         `json:"panics"`
	Horizons    int64         `json:"horizon_cutoffs"`
	Stopped     bool          `json:"stopped_by_budget"`
}

func (st *Stats) add(o Stats) {
	st.Executions += o.Executions
	st.Points += o.Points
	if o.MaxPoints > st.MaxPoints {
		st.MaxPoints = o.MaxPoints
	}
	if o.MaxGs > st.MaxGs {
		st.MaxGs = o.MaxGs
	}
	if st.ByDeviation == nil {
		st.ByDeviation = map[int]int64{}
	}
	for k, v := range o.ByDeviation {
		st.ByDeviation[k] += v
	}
	st.Deadlocks += o.Deadlocks
	st.Panics += o.Panics
	st.Horizons += o.Horizons
	st.Stopped = st.Stopped || o.Stopped
}

func (e *Explorer) record(x *Exec) {
	st := &e.Stats
	st.Executions++
	st.Points += int64(len(x.Points))
	if len(x.Points) > st.MaxPoints {
		st.MaxPoints = len(x.Points)
	}
	if x.Goroutines > st.MaxGs {
		st.MaxGs = x.Goroutines
	}
	if st.ByDeviation == nil {
		st.ByDeviation = map[int]int64{}
	}
	st.ByDeviation[x.Deviations()]++
	if x.Deadlock {
		st.Deadlocks++
	}
	if x.Panic != nil {
		st.Panics++
	}
	if x.Horizon {
		st.Horizons++
	}
	if e.OnExec != nil {
		e.OnExec(x)
	}
}

// Explore runs the search.
func (e *Explorer) Explore() {
	if e.NShards <= 0 {
		e.NShards = 1
	}
	e.explore(nil)
}

func (e *Explorer) explore(prefix []int) {
	if e.Stop != nil && e.Stop() {
		e.Stats.Stopped = true
		return
	}
	x := Run(prefix, e.Body)
	root := prefix == nil
	if !root || e.Shard == 0 {
		e.record(x)
	}
	dev := 0
	ord := 0
	for i, p := range x.Points {
		if i >= len(prefix) && dev+1 <= e.Bound && (!e.FromMark || (x.Mark >= 0 && i >= x.Mark)) {
			for alt := 1; alt < p.Enabled; alt++ {
				if root {
					ord++
					if (ord-1)%e.NShards != e.Shard {
						continue
					}
				}
				np := make([]int, i+1)
				for j := 0; j < i; j++ {
					np[j] = x.Points[j].Choice
				}
				np[i] = alt
				e.explore(np)
				if e.Stats.Stopped {
					return
				}
			}
		}
		if p.Choice != 0 {
			dev++
		}
	}
}

// ---------------------------------------------------------------------------
// Process-level sharding: the scheduler state is per process, so a search is
// spread over worker processes, each exploring a congruence class of level-1
// subtrees. A driver calls Sharded(); in the parent it re-executes the binary
// N times with VERIF_SHARD=i/N and merges the JSON each worker prints; in a
// worker it runs the search and prints the result.
// ---------------------------------------------------------------------------

// ShardEnv returns (shard, nshards, true) inside a worker process.
func ShardEnv() (int, int, bool) {
	v := os.Getenv("VERIF_SHARD")
	if v == "" {
		return 0, 1, false
	}
	var a, b int
	if _, err := fmt.Sscanf(v, "%d/%d", &a, &b); err != nil || b <= 0 {
		return 0, 1, false
	}
	return a, b, true
}
