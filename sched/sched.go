// Package sched is a cooperative scheduler for the goroutines of an instrumented
// package (see cmd/instr) together with a stateless, deviation-bounded DFS explorer
// (explore.go). Every goroutine of an execution is a real goroutine, but exactly one
// runs at a time: before each visible operation (mutex acquire, cond wait, channel
// send/receive/select, atomic access, WaitGroup wait) the running goroutine records
// the operation and yields; the scheduler computes the enabled set from shim state and
// the next choice comes from the replayed prefix (else alternative 0).
//
// Alternatives at a point are in canonical order: those of the goroutine that just
// yielded first, then the other goroutines in ascending id (goroutines woken from a
// cond wait last); a select contributes one
// alternative per ready case in source order, so Go's random case choice is an
// explored choice.
package sched

import (
	"fmt"
	"runtime"
	"runtime/debug"
	"strings"
	"sync"
	"unsafe"
)

type opKind int

const (
	opResume opKind = iota // always enabled
	opLock
	opRLock
	opCondWait // not enabled until signalled (then becomes opLock)
	opSend
	opRecv
	opSelect
	opWGWait
	opTimer // a timer goroutine waiting to fire: always enabled (firing time is a scheduler choice)
	opIdle  // WaitIdle: enabled only when no other goroutine is
)

var kindName = [...]string{"resume", "lock", "rlock", "cond-wait", "send", "recv", "select", "wg-wait", "timer", "wait-idle"}

type selCase struct {
	send bool
	ch   unsafe.Pointer
	cap  int
	lenf func() int
}

// G is one scheduled goroutine.
type G struct {
	id      int
	wake    chan struct{}
	exited  chan struct{}
	kind    opKind
	mu      *Mutex
	rw      *RWMutex
	wg      *WaitGroup
	cases   []selCase
	hasDef  bool
	chosen  int  // granted case index (-1 default)
	passive bool // granted as passive rendezvous party: must park after its real op
	woken   bool // its pending lock request comes from a cond wake-up (Signal/Broadcast)
	done    bool
	daemon  bool
	name    string
	gid     int64
	pcs     [10]uintptr
	npc     int
}

// Point is one scheduling decision of an execution.
type Point struct {
	Enabled int // number of alternatives
	Choice  int
}

// Exec is the record of one execution.
type Exec struct {
	Points     []Point
	Deadlock   bool
	Horizon    bool // point budget exhausted (execution cut off)
	Panic      any
	PanicStack string
	Blocked    []string // unfinished goroutines and what they wait for, at deadlock
	Goroutines int
	Mark       int // index of the first scheduling point after the harness called Mark (-1: not called)
}

// Choices returns the choice list of the execution (a replayable schedule).
func (x *Exec) Choices() []int {
	c := make([]int, len(x.Points))
	for i, p := range x.Points {
		c[i] = p.Choice
	}
	return c
}

// Deviations is the number of non-default choices.
func (x *Exec) Deviations() int {
	n := 0
	for _, p := range x.Points {
		if p.Choice != 0 {
			n++
		}
	}
	return n
}

type S struct {
	gs        []*G
	cur       *G
	prefix    []int
	x         *Exec
	closed    map[unsafe.Pointer]bool
	abort     bool
	mainDone  chan struct{}
	maxPoints int
}

// MaxPoints bounds the scheduling points of one execution (horizon); 0 = default.
var MaxPoints = 20000

var Trace bool
var cur *S // the active scheduler (one execution at a time per process)

// Active reports whether code is running under the scheduler.
func Active() bool { return cur != nil }

type alt struct {
	g       *G
	caseIdx int
	partner *G
	pcase   int
}

func (s *S) partnerFor(g *G, c selCase) (*G, int, bool) {
	if c.ch == nil {
		return nil, 0, false
	}
	if c.send {
		if s.closed[c.ch] {
			return nil, 0, true // the real send will panic, as in Go
		}
		if c.cap > 0 {
			return nil, 0, c.lenf() < c.cap
		}
		for _, o := range s.gs {
			if o == g || o.done {
				continue
			}
			if o.kind == opRecv || o.kind == opSelect || o.kind == opSend {
				for i, oc := range o.cases {
					if !oc.send && oc.ch == c.ch {
						return o, i, true
					}
				}
			}
		}
		return nil, 0, false
	}
	if c.cap > 0 {
		return nil, 0, c.lenf() > 0 || s.closed[c.ch]
	}
	if s.closed[c.ch] {
		return nil, 0, true
	}
	for _, o := range s.gs {
		if o == g || o.done {
			continue
		}
		if o.kind == opSend || o.kind == opSelect || o.kind == opRecv {
			for i, oc := range o.cases {
				if oc.send && oc.ch == c.ch {
					return o, i, true
				}
			}
		}
	}
	return nil, 0, false
}

func (s *S) altsOf(g *G, out []alt) []alt {
	switch g.kind {
	case opResume, opTimer:
		out = append(out, alt{g: g})
	case opLock:
		if g.mu != nil && !g.mu.locked {
			out = append(out, alt{g: g})
		}
		if g.rw != nil && !g.rw.w && g.rw.r == 0 {
			out = append(out, alt{g: g})
		}
	case opRLock:
		if !g.rw.w && g.rw.wwait == 0 {
			out = append(out, alt{g: g})
		}
	case opCondWait:
	case opWGWait:
		if g.wg.n <= 0 {
			out = append(out, alt{g: g})
		}
	case opSend, opRecv, opSelect:
		n := 0
		for i, c := range g.cases {
			if p, pi, ok := s.partnerFor(g, c); ok {
				out = append(out, alt{g: g, caseIdx: i, partner: p, pcase: pi})
				n++
			}
		}
		if n == 0 && g.hasDef {
			out = append(out, alt{g: g, caseIdx: -1})
		}
	}
	return out
}

// pick chooses the next alternative; from is the goroutine that just yielded (may be done).
func (s *S) pick(from *G) (alt, bool) {
	var alts []alt
	if from != nil && !from.done {
		alts = s.altsOf(from, alts)
	}
	for _, g := range s.gs {
		if g == from || g.done || g.woken {
			continue
		}
		alts = s.altsOf(g, alts)
	}
	// Goroutines re-acquiring their mutex after a cond wake-up come last in the canonical
	// order: in the default schedule a woken waiter loses the race for the lock (as it
	// usually does in the runtime), which puts missing re-checks of the wait condition
	// within a small deviation bound.
	for _, g := range s.gs {
		if g == from || g.done || !g.woken {
			continue
		}
		alts = s.altsOf(g, alts)
	}
	if len(alts) == 0 {
		// quiescent: goroutines parked in WaitIdle may continue (lowest id first)
		for _, g := range s.gs {
			if !g.done && g.kind == opIdle {
				alts = append(alts, alt{g: g})
			}
		}
	}
	if len(alts) == 0 {
		return alt{}, false
	}
	i := len(s.x.Points)
	c := 0
	if i < len(s.prefix) {
		c = s.prefix[i]
		if c >= len(alts) {
			panic(fmt.Sprintf("sched: replay divergence at point %d: choice %d of %d alternatives", i, c, len(alts)))
		}
	}
	s.x.Points = append(s.x.Points, Point{Enabled: len(alts), Choice: c})
	return alts[c], true
}

func (s *S) grant(a alt) {
	g := a.g
	if Trace {
		pid := -1
		if a.partner != nil {
			pid = a.partner.id
		}
		println("grant g", g.id, g.name, kindName[g.kind], "case", a.caseIdx, "partner", pid, "point", len(s.x.Points))
	}
	g.chosen = a.caseIdx
	g.woken = false
	switch g.kind {
	case opLock:
		if g.mu != nil {
			g.mu.locked = true
		} else {
			g.rw.w = true
			g.rw.wwait--
		}
	case opRLock:
		g.rw.r++
	}
	if a.partner != nil {
		p := a.partner
		p.chosen = a.pcase
		p.passive = true
		p.kind = opResume // after its real op it parks as resumable
		p.cases = nil
		p.wake <- struct{}{}
	}
	g.kind = opResume
	g.cases = nil
	g.mu, g.rw, g.wg = nil, nil, nil
}

// yield is called by the running goroutine g with its pending op already stored in g.
func (s *S) yield(g *G) {
	if s.abort {
		runtime.Goexit()
	}
	g.npc = runtime.Callers(2, g.pcs[:])
	if len(s.x.Points) >= s.maxPoints {
		s.x.Horizon = true
		s.finish()
		runtime.Goexit()
	}
	a, ok := s.pick(g)
	if !ok {
		s.deadlock()
		runtime.Goexit()
	}
	s.grant(a)
	if a.g != g {
		s.cur = a.g
		a.g.wake <- struct{}{}
		<-g.wake
		if s.abort {
			runtime.Goexit()
		}
	}
}

func (g *G) where() string {
	if g.npc == 0 {
		return ""
	}
	fr := runtime.CallersFrames(g.pcs[:g.npc])
	var out []string
	for {
		f, more := fr.Next()
		if f.Function != "" && !strings.Contains(f.File, "/verif/sched/") && !strings.Contains(f.File, "/verif/vsync/") && !strings.Contains(f.File, "/verif/vatomic/") {
			fn := f.Function
			if i := strings.LastIndex(fn, "/"); i >= 0 {
				fn = fn[i+1:]
			}
			out = append(out, fmt.Sprintf("%s:%d", fn, f.Line))
			if len(out) >= 3 {
				break
			}
		}
		if !more {
			break
		}
	}
	return strings.Join(out, " < ")
}

// settle is called after a granted real channel op; passive parties park.
func (s *S) settle(g *G) {
	if g.passive {
		g.passive = false
		<-g.wake
		if s.abort {
			runtime.Goexit()
		}
	}
}

func (s *S) deadlock() {
	s.x.Deadlock = true
	for _, g := range s.gs {
		if !g.done {
			d := fmt.Sprintf("g%d(%s) waits: %s", g.id, g.name, kindName[g.kind])
			if w := g.where(); w != "" {
				d += " at " + w
			}
			s.x.Blocked = append(s.x.Blocked, d)
		}
	}
	s.finish()
}

func (s *S) finish() {
	if s.abort {
		return
	}
	s.abort = true
	close(s.mainDone)
}

func (s *S) exit(g *G) {
	g.done = true
	if s.abort {
		return
	}
	if g.id == 0 {
		s.finish()
		return
	}
	a, ok := s.pick(g)
	if !ok {
		s.deadlock()
		return
	}
	s.grant(a)
	s.cur = a.g
	a.g.wake <- struct{}{}
}

func (s *S) spawn(name string, f func()) *G {
	g := &G{id: len(s.gs), wake: make(chan struct{}, 1), exited: make(chan struct{}), kind: opResume, name: name}
	s.gs = append(s.gs, g)
	go func() {
		defer close(g.exited)
		defer func() {
			if r := recover(); r != nil {
				if s.abort {
					g.done = true
					return // panics during teardown are not part of the execution
				}
				if s.x.Panic == nil {
					s.x.Panic = r
					s.x.PanicStack = string(debug.Stack())
				}
				g.done = true
				s.finish()
				return
			}
			s.exit(g)
		}()
		g.gid = goid()
		<-g.wake
		if s.abort {
			g.done = true
			return
		}
		f()
	}()
	return g
}

// Go is the rewritten `go` statement.
func Go(f func()) {
	s := cur
	if s == nil {
		go f()
		return
	}
	if s.abort {
		return
	}
	s.spawn("", f)
}

// GoNamed is Go with a name that shows up in deadlock reports.
func GoNamed(name string, f func()) {
	s := cur
	if s == nil {
		go f()
		return
	}
	if s.abort {
		return
	}
	s.spawn(name, f)
}

func goid() int64 {
	var buf [64]byte
	n := runtime.Stack(buf[:], false)
	var id int64
	for _, c := range buf[len("goroutine "):n] {
		if c < '0' || c > '9' {
			break
		}
		id = id*10 + int64(c-'0')
	}
	return id
}

func (s *S) me() *G {
	if s.cur.gid != goid() {
		debug.PrintStack()
		panic(fmt.Sprintf("sched: a goroutine that is not scheduled (current is g%d) called a shim operation", s.cur.id))
	}
	return s.cur
}

// Run executes body under the scheduler following prefix and returns the execution
// record. The execution ends when body returns (goroutine 0), at deadlock, at a panic
// in any goroutine, or at the point horizon; all other goroutines are then torn down
// one at a time in abort mode (every shim operation exits the goroutine).
func Run(prefix []int, body func()) *Exec {
	s := &S{prefix: prefix, x: &Exec{Mark: -1}, closed: map[unsafe.Pointer]bool{}, mainDone: make(chan struct{}), maxPoints: MaxPoints}
	if cur != nil {
		panic("sched: nested Run")
	}
	cur = s
	g0 := s.spawn("main", body)
	s.cur = g0
	g0.wake <- struct{}{}
	<-s.mainDone
	// tear down: goroutines are woken one at a time so that their deferred calls never run concurrently
	for i := 0; i < len(s.gs); i++ {
		g := s.gs[i]
		select {
		case g.wake <- struct{}{}:
		default:
		}
		<-g.exited
	}
	s.x.Goroutines = len(s.gs)
	cur = nil
	return s.x
}

// ---- channel ops ----

func chanID[T any](ch <-chan T) unsafe.Pointer { return *(*unsafe.Pointer)(unsafe.Pointer(&ch)) }

func Send[T any](ch chan<- T, v T) {
	s := cur
	if s == nil {
		ch <- v
		return
	}
	if s.abort {
		runtime.Goexit()
	}
	g := s.me()
	g.kind = opSend
	g.cases = []selCase{{send: true, ch: *(*unsafe.Pointer)(unsafe.Pointer(&ch)), cap: cap(ch), lenf: func() int { return len(ch) }}}
	s.yield(g)
	ch <- v
	s.settle(g)
}

func SendTo[T any](ch chan<- T) func(T) { return func(v T) { Send(ch, v) } }

func Recv2[T any](ch <-chan T) (T, bool) {
	s := cur
	if s == nil {
		v, ok := <-ch
		return v, ok
	}
	if s.abort {
		runtime.Goexit()
	}
	g := s.me()
	g.kind = opRecv
	g.cases = []selCase{{ch: chanID(ch), cap: cap(ch), lenf: func() int { return len(ch) }}}
	s.yield(g)
	v, ok := <-ch
	s.settle(g)
	return v, ok
}

func Recv[T any](ch <-chan T) T { v, _ := Recv2(ch); return v }

func Close[T any](ch chan<- T) {
	if s := cur; s != nil {
		if s.abort {
			runtime.Goexit()
		}
		s.closed[*(*unsafe.Pointer)(unsafe.Pointer(&ch))] = true
	}
	close(ch)
}

type Case struct{ c selCase }

func RecvCase[T any](ch <-chan T) Case {
	return Case{selCase{ch: chanID(ch), cap: cap(ch), lenf: func() int { return len(ch) }}}
}
func SendCase[T any](ch chan<- T) Case {
	return Case{selCase{send: true, ch: *(*unsafe.Pointer)(unsafe.Pointer(&ch)), cap: cap(ch), lenf: func() int { return len(ch) }}}
}

// Select returns a settle token and the granted case index, or -1 for default.
func Select(hasDefault bool, cases ...Case) (*G, int) {
	s := cur
	if s == nil {
		panic("sched.Select outside the scheduler")
	}
	if s.abort {
		runtime.Goexit()
	}
	g := s.me()
	g.kind = opSelect
	g.hasDef = hasDefault
	g.cases = g.cases[:0]
	for _, c := range cases {
		g.cases = append(g.cases, c.c)
	}
	s.yield(g)
	g.hasDef = false
	return g, g.chosen
}

func (g *G) Settle() {
	if s := cur; s != nil {
		s.settle(g)
	}
}

// ---- sync shims (state lives here; verif/vsync aliases these types) ----

// Mutex: under the scheduler a flag whose Lock is a (possibly blocking) scheduling point;
// outside a scheduler run (instrumented package used by an ordinary, possibly parallel, grid
// check) a real mutex.
type Mutex struct {
	locked bool
	real   sync.Mutex
}

func (m *Mutex) Lock() {
	s := cur
	if s == nil {
		m.real.Lock()
		m.locked = true
		return
	}
	if s.abort {
		runtime.Goexit()
	}
	g := s.me()
	g.kind, g.mu = opLock, m
	s.yield(g)
}
func (m *Mutex) Unlock() {
	s := cur
	if s != nil && s.abort {
		return
	}
	if !m.locked {
		panic("sync: unlock of unlocked mutex")
	}
	m.locked = false
	if s == nil {
		m.real.Unlock()
	}
}
func (m *Mutex) TryLock() bool {
	if cur == nil {
		if !m.real.TryLock() {
			return false
		}
		m.locked = true
		return true
	}
	if m.locked {
		return false
	}
	m.locked = true
	return true
}

type RWMutex struct {
	w     bool
	r     int
	wwait int
}

func (m *RWMutex) Lock() {
	s := cur
	if s == nil {
		m.w = true
		return
	}
	if s.abort {
		runtime.Goexit()
	}
	g := s.me()
	g.kind, g.rw = opLock, m
	m.wwait++
	s.yield(g)
}
func (m *RWMutex) Unlock() {
	if s := cur; s != nil && s.abort {
		return
	}
	m.w = false
}
func (m *RWMutex) RLock() {
	s := cur
	if s == nil {
		m.r++
		return
	}
	if s.abort {
		runtime.Goexit()
	}
	g := s.me()
	g.kind, g.rw = opRLock, m
	s.yield(g)
}
func (m *RWMutex) RUnlock() {
	if s := cur; s != nil && s.abort {
		return
	}
	m.r--
}

type Locker interface {
	Lock()
	Unlock()
}

type Cond struct {
	L       Locker
	waiters []*G
}

func NewCond(l Locker) *Cond { return &Cond{L: l} }

func (c *Cond) Wait() {
	s := cur
	if s == nil {
		panic("vsync.Cond.Wait outside the scheduler")
	}
	if s.abort {
		runtime.Goexit()
	}
	g := s.me()
	c.L.Unlock()
	c.waiters = append(c.waiters, g)
	g.kind = opCondWait
	s.yield(g)
	// woken: Signal/Broadcast turned the wait into a lock request, granted by the scheduler
}
func (c *Cond) wakeOne(g *G) {
	g.woken = true
	switch l := c.L.(type) {
	case *Mutex:
		g.kind, g.mu = opLock, l
	case *RWMutex:
		g.kind, g.rw = opLock, l
		l.wwait++
	default:
		panic("cond with unsupported locker")
	}
}
func (c *Cond) Signal() {
	if s := cur; s != nil && s.abort {
		return
	}
	if len(c.waiters) > 0 {
		c.wakeOne(c.waiters[0])
		c.waiters = c.waiters[1:]
	}
}
func (c *Cond) Broadcast() {
	if s := cur; s != nil && s.abort {
		return
	}
	for _, g := range c.waiters {
		c.wakeOne(g)
	}
	c.waiters = nil
}

// WaitGroup: under the scheduler a plain counter (Wait is a blocking scheduling point);
// outside a scheduler run (instrumented code called from an ordinary grid check) it falls
// through to a real sync.WaitGroup.
type WaitGroup struct {
	n    int
	real sync.WaitGroup
}

func (w *WaitGroup) Add(d int) {
	if cur == nil {
		w.real.Add(d)
		return
	}
	w.n += d
}
func (w *WaitGroup) Done() {
	if cur == nil {
		w.real.Done()
		return
	}
	w.n--
}
func (w *WaitGroup) Go(f func()) {
	w.Add(1)
	Go(func() { defer w.Done(); f() })
}
func (w *WaitGroup) Wait() {
	s := cur
	if s == nil {
		w.real.Wait()
		return
	}
	if s.abort {
		runtime.Goexit()
	}
	g := s.me()
	g.kind, g.wg = opWGWait, w
	s.yield(g)
}

type Once struct {
	m    Mutex
	done bool
}

func (o *Once) Do(f func()) {
	if o.done {
		return
	}
	o.m.Lock()
	defer o.m.Unlock()
	if !o.done {
		defer func() { o.done = true }()
		f()
	}
}

// Mark tells the explorer that the interesting part of the scenario starts here: an
// Explorer with FromMark set branches only at scheduling points after the (first) call,
// i.e. it enumerates every execution with at most Bound deviations AFTER the mark, the
// set-up before it running in the default schedule.
func Mark() {
	s := cur
	if s == nil || s.abort {
		return
	}
	if s.x.Mark < 0 {
		s.x.Mark = len(s.x.Points)
	}
}

// WaitIdle parks the caller until no other goroutine can make progress (every other
// goroutine has finished or is blocked). Harness bodies use it to let the system
// under test reach quiescence before they look at the result or end the scenario.
func WaitIdle() {
	s := cur
	if s == nil {
		return
	}
	if s.abort {
		runtime.Goexit()
	}
	g := s.me()
	g.kind = opIdle
	s.yield(g)
}

// Yield is a plain scheduling point (used before atomic accesses).
func Yield() {
	s := cur
	if s == nil {
		return
	}
	if s.abort {
		runtime.Goexit()
	}
	g := s.me()
	g.kind = opResume
	s.yield(g)
}

var _ sync.Locker = (*Mutex)(nil)

// Pool stands in for sync.Pool in instrumented packages. Under the scheduler it is a
// deterministic LIFO free list whose Get and Put are scheduling points (sync.Pool's per-P
// caches and GC clearing are nondeterminism the explorer cannot own; any object Put may be
// returned by any later Get, which is exactly what sync.Pool permits). Outside a
// scheduler run it falls through to a real sync.Pool.
type Pool struct {
	New   func() any
	real  sync.Pool
	items []any
}

func (p *Pool) Get() any {
	if cur == nil {
		if v := p.real.Get(); v != nil {
			return v
		}
		if p.New != nil {
			return p.New()
		}
		return nil
	}
	Yield()
	if n := len(p.items); n > 0 {
		v := p.items[n-1]
		p.items = p.items[:n-1]
		return v
	}
	if p.New != nil {
		return p.New()
	}
	return nil
}

func (p *Pool) Put(v any) {
	if cur == nil {
		p.real.Put(v)
		return
	}
	Yield()
	p.items = append(p.items, v)
}

// Reset empties the scheduler-mode free list (harnesses call it at the start of a
// scenario body so that executions are independent of each other).
func (p *Pool) Reset() { p.items = nil }
